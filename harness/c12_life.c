/* c12_life.c -- C12 (kind S): work-unit lifecycle histories on one stream.
 *
 * HIST configs: every history of <= D choices over
 *   primary : create named/unnamed unit in slot 0/1, ABT_thread_cancel, join,
 *             free, revive (ABT_thread_revive / ABT_task_revive /
 *             ABT_thread_revive_to), yield (let the scheduler run)
 *   unit    : return, ABT_self_exit, ABT_thread_exit, yield, join the other unit
 * on <= 2 units (ULT with pooled stack, ULT with malloc'ed stack, tasklet),
 * filtered by a small reference model so that only documented calls are made.
 * REV3 configs: one named unit taken through 4 incarnations (3 revive cycles)
 * with every combination of how it terminates / how the primary waits / which
 * revive call is used.
 * DIRECT config: ABT_self_suspend_to / ABT_self_yield_to / ABT_self_exit_to:
 * the target reads its own state (RUNNING) and the caller's as its first action.
 *
 * The model is observation driven: units log slice begin / yield / finish, the
 * primary logs its calls; the model only predicts what the documentation fixes
 * (state of every unit at every sample point, no slice once a cancel request is
 * pending, a cancelled READY unit is gone after the primary yielded once to the
 * FIFO pool, joiner released, destructor of a work-unit-local key = "freed":
 * named at free and not before, unnamed at completion, exactly once). */
#include "common.h"
#include "c12_asan.h"

enum { K_ULT, K_ULTM, K_TASK };
enum { M_HIST, M_REV3, M_DIRECT };
enum { MS_NONE, MS_READY, MS_RUNNING, MS_BLOCKED, MS_TERM,
       MS_WAITING /* inside a join: BLOCKED or READY (yield loop), both allowed */ };

typedef struct {
    const char *name;
    int quick;
    int mode;
    int kind[2];
    int depth; /* HIST: number of choices; REV3: 0 = reduced, 1 = full */
} cfg_t;

static const cfg_t cfgs[] = {
    { "hist ULT+ULT D6", 1, M_HIST, { K_ULT, K_ULT }, 6 },
    { "hist ULT+TASK D6", 1, M_HIST, { K_ULT, K_TASK }, 6 },
    { "hist ULTM+ULTM D5", 1, M_HIST, { K_ULTM, K_ULTM }, 5 },
    { "hist TASK+TASK D5", 1, M_HIST, { K_TASK, K_TASK }, 5 },
    { "rev3 ULT reduced", 1, M_REV3, { K_ULT, K_ULT }, 0 },
    { "rev3 TASK", 1, M_REV3, { K_TASK, K_ULT }, 1 },
    { "rev3 ULTM reduced", 1, M_REV3, { K_ULTM, K_ULTM }, 0 },
    { "directed switch: state of target and caller", 1, M_DIRECT,
      { K_ULT, K_ULT }, 0 },
    { "hist ULT+ULT D7", 0, M_HIST, { K_ULT, K_ULT }, 7 },
    { "hist ULT+TASK D7", 0, M_HIST, { K_ULT, K_TASK }, 7 },
    { "hist ULTM+ULT D6", 0, M_HIST, { K_ULTM, K_ULT }, 6 },
    { "hist TASK+TASK D7", 0, M_HIST, { K_TASK, K_TASK }, 7 },
    { "rev3 ULT full", 0, M_REV3, { K_ULT, K_ULT }, 1 },
    { "rev3 ULTM full", 0, M_REV3, { K_ULTM, K_ULT }, 1 },
};

#define MAXGEN 16
#define MAXINC 8
#define MALLOC_STACK 32768 /* != default stack size -> malloc'ed descriptor+stack */

typedef struct {
    int ms, kind, named, gen, inc;
    int cancel_req, grace, yields, being_joined, joiner;
    int joining; /* 1 while this unit is inside ABT_thread_join(other unit) */
    int hknown;
    ABT_thread h;
    int keyset;
    int slices;
    int runs[MAXINC], fins[MAXINC];
    int revives;
    int forced; /* REV3: action script for the current incarnation */
} unit_t;

static const cfg_t *C;
static unit_t U[2];
static ABT_pool pool0;
static ABT_key key;
static ABT_thread_attr attr_m;
static int gencount[2];
static int dcount[2][MAXGEN];   /* destructor calls per (slot, gen) */
static int dexpect[2][MAXGEN];  /* -1: must be 0 (still owned), else exact */
static int budget;              /* remaining history choices */
static long nsamples;
static int n_cancel_term, n_revive, n_blocked_seen, n_slices, n_exits;

/* ---------------------------------------------------------------- probes */

static void key_destructor(void *value)
{
    intptr_t v = (intptr_t)value;
    int slot = (int)(v & 1), gen = (int)(v >> 1);
    abtmc_check(gen > 0 && gen < MAXGEN, "destructor_bad_value",
                "destructor called with value %ld", (long)v);
    dcount[slot][gen]++;
}

static void check_destructors(const char *where)
{
    for (int s = 0; s < 2; s++)
        for (int g = 1; g <= gencount[s]; g++) {
            int want = dexpect[s][g] < 0 ? 0 : dexpect[s][g];
            abtmc_check(dcount[s][g] <= 1, "freed_twice",
                        "%s: work-unit-local destructor of unit %d.%d ran %d "
                        "times (unit freed more than once)",
                        where, s, g, dcount[s][g]);
            if (dexpect[s][g] < 0)
                abtmc_check(dcount[s][g] == 0, "freed_early",
                            "%s: unit %d.%d was freed (key destructor ran) "
                            "although it is %s",
                            where, s, g,
                            U[s].named ? "a named unit that was not freed yet"
                                       : "an unnamed unit that has not completed");
            else
                abtmc_check(dcount[s][g] == want, "not_freed",
                            "%s: unit %d.%d: key destructor ran %d times, "
                            "expected %d (resources not released on "
                            "completion/free)",
                            where, s, g, dcount[s][g], want);
        }
}

static const char *sname(int s)
{
    switch (s) {
        case ABT_THREAD_STATE_READY: return "READY";
        case ABT_THREAD_STATE_RUNNING: return "RUNNING";
        case ABT_THREAD_STATE_BLOCKED: return "BLOCKED";
        case ABT_THREAD_STATE_TERMINATED: return "TERMINATED";
        default: return "?";
    }
}
static int ms2abt(int ms)
{
    switch (ms) {
        case MS_READY: return ABT_THREAD_STATE_READY;
        case MS_RUNNING: return ABT_THREAD_STATE_RUNNING;
        case MS_BLOCKED: return ABT_THREAD_STATE_BLOCKED;
        default: return ABT_THREAD_STATE_TERMINATED;
    }
}

static int get_state(unit_t *u)
{
    ABT_thread_state s;
    OK(ABT_thread_get_state(u->h, &s));
    nsamples++;
    if (u->kind == K_TASK) {
        /* the tasklet view must agree */
        ABT_task_state ts;
        OK(ABT_task_get_state(u->h, &ts));
        int want = s == ABT_THREAD_STATE_READY
                       ? ABT_TASK_STATE_READY
                       : s == ABT_THREAD_STATE_TERMINATED ? ABT_TASK_STATE_TERMINATED
                                                          : ABT_TASK_STATE_RUNNING;
        abtmc_check((int)ts == want, "task_state_mismatch",
                    "ABT_task_get_state=%d but ABT_thread_get_state=%s", (int)ts,
                    sname(s));
    }
    return (int)s;
}

/* ----------------------------------------------------------------- model */

static void model_terminate(unit_t *u, int by_cancel)
{
    int slot = (int)(u - U);
    if (u->joiner >= 0) {
        if (U[u->joiner].ms == MS_WAITING)
            U[u->joiner].ms = MS_READY; /* woken (pushed or handed off to) */
        u->joiner = -1;
    }
    /* a unit cancelled while it was waiting in a join gives up the join */
    if (u->joining) {
        u->joining = 0;
        U[1 - slot].being_joined = 0;
        if (U[1 - slot].joiner == slot)
            U[1 - slot].joiner = -1;
    }
    if (by_cancel)
        n_cancel_term++;
    /* "runs the function exactly once" per incarnation, 0 if never started */
    abtmc_check(u->runs[u->inc] <= 1 && u->fins[u->inc] <= 1, "ran_twice",
                "unit %d.%d incarnation %d: function entered %d times, "
                "finished %d times",
                slot, u->gen, u->inc, u->runs[u->inc], u->fins[u->inc]);
    if (u->named) {
        u->ms = MS_TERM;
    } else {
        u->ms = MS_NONE;
        u->hknown = 0;
        dexpect[slot][u->gen] = u->keyset; /* freed automatically */
    }
}

/* may the handle be dereferenced?  (unnamed units with a pending cancel may
 * already be gone) */
static int can_sample(unit_t *u)
{
    if (u->ms == MS_NONE || !u->hknown)
        return 0;
    if (!u->named && u->cancel_req)
        return 0;
    return 1;
}

/* a READY/waiting unit with a pending cancel request may have been terminated
 * by the scheduler in the meantime (nobody logs that): catch up */
static void reconcile(int *st)
{
    for (int i = 0; i < 2; i++) {
        unit_t *u = &U[i];
        /* an unnamed READY unit with a pending cancel: its handle is dead;
         * the key destructor tells when the scheduler got rid of it */
        if ((u->ms == MS_READY || u->ms == MS_WAITING) && !u->named &&
            u->cancel_req && u->keyset && dcount[i][u->gen] == 1)
            model_terminate(u, 1);
        if (!can_sample(u))
            continue;
        st[i] = get_state(u);
        if ((u->ms == MS_READY || u->ms == MS_WAITING) && u->cancel_req &&
            st[i] == ABT_THREAD_STATE_TERMINATED)
            model_terminate(u, 1);
    }
}

static void sample_all(const char *where)
{
    int st[2] = { -1, -1 };
    /* histories such as revive_to;return;revive_to;return are periodic in the
     * hooked state; the progress is in plain variables: tell the engine */
    abtmc_progress();
    reconcile(st);
    for (int i = 0; i < 2; i++) {
        unit_t *u = &U[i];
        if (st[i] < 0)
            continue;
        if (st[i] == ABT_THREAD_STATE_BLOCKED)
            n_blocked_seen = 1;
        if (u->ms == MS_WAITING && (st[i] == ABT_THREAD_STATE_BLOCKED ||
                                    st[i] == ABT_THREAD_STATE_READY))
            continue;
        abtmc_check(st[i] == ms2abt(u->ms), "state_mismatch",
                    "%s: ABT_thread_get_state(unit %d.%d inc %d)=%s, the "
                    "lifecycle model says %s (cancel_req=%d)",
                    where, i, u->gen, u->inc, sname(st[i]),
                    sname(ms2abt(u->ms)), u->cancel_req);
        if (u->kind == K_ULTM) {
            /* malloc'ed descriptor: must still be a live allocation */
            abtmc_check(abtmc_ledger_find((void *)u->h, NULL, NULL),
                        "freed_early",
                        "%s: descriptor of live unit %d.%d is not a live "
                        "allocation any more",
                        where, i, u->gen);
        }
    }
    /* handles of live units are distinct */
    if (can_sample(&U[0]) && can_sample(&U[1]))
        abtmc_check(U[0].h != U[1].h, "handle_reused",
                    "%s: two live units share one handle (descriptor "
                    "recycled before it was freed)",
                    where);
    check_destructors(where);
}

/* ------------------------------------------------------------ unit side */

enum { A_RET, A_SEXIT, A_TEXIT, A_YIELD, A_JOIN };

static void unit_fn_a(void *arg);
static void unit_fn_b(void *arg);
typedef void (*unit_fn_t)(void *);
static unit_fn_t fn_for(int inc) { return (inc & 1) ? unit_fn_b : unit_fn_a; }
static void *arg_for(int slot, int gen, int inc)
{
    return (void *)(intptr_t)(slot | (gen << 1) | (inc << 8));
}

static void slice_begin(unit_t *u, const char *where)
{
    int slot = (int)(u - U);
    /* the unit we were blocked on may have been cancelled silently */
    if (u->ms == MS_WAITING) {
        int st[2] = { -1, -1 };
        reconcile(st);
    }
    if (u->cancel_req) {
        /* a unit that was BLOCKED when the request arrived may be resumed by
         * a direct hand-off (no scheduler involved) and then runs until its
         * next scheduling point; otherwise no new slice may start */
        abtmc_check(u->grace, "slice_after_cancel",
                    "%s: unit %d.%d started a new slice although a cancel "
                    "request was pending before it was scheduled",
                    where, slot, u->gen);
        u->grace = 0;
    }
    abtmc_check(u->ms == MS_READY, "slice_from_bad_state",
                "%s: unit %d.%d runs while the model has it in state %d",
                where, slot, u->gen, u->ms);
    u->ms = MS_RUNNING;
    u->slices++;
    n_slices++;
    sample_all(where);
}

static int unit_choose(unit_t *u)
{
    int slot = (int)(u - U);
    if (C->mode == M_REV3) {
        int a = u->forced;
        if (a == A_YIELD)
            u->forced = A_RET; /* yield once, then return */
        return a;
    }
    if (u->kind == K_TASK || budget <= 0)
        return A_RET;
    int acts[5], n = 0;
    unit_t *o = &U[1 - slot];
    acts[n++] = A_RET;
    acts[n++] = A_SEXIT;
    acts[n++] = A_TEXIT;
    if (u->yields < 2)
        acts[n++] = A_YIELD;
    if (o->ms == MS_READY && o->named && o->hknown && !o->being_joined &&
        o->joiner < 0)
        acts[n++] = A_JOIN;
    int a = acts[abtmc_choose(n, ABTMC_B_FREE)];
    if (a != A_RET)
        budget--;
    return a;
}

static void unit_body(void *arg, unit_fn_t self_fn)
{
    intptr_t v = (intptr_t)arg;
    int slot = (int)(v & 1), gen = (int)((v >> 1) & 127), inc = (int)(v >> 8);
    unit_t *u = &U[slot];
    abtmc_check(u->ms != MS_NONE && u->gen == gen && u->inc == inc,
                "stale_function",
                "function of unit %d.%d incarnation %d runs, but the live "
                "unit in that slot is %d.%d incarnation %d (state %d)",
                slot, gen, inc, slot, u->gen, u->inc, u->ms);
    abtmc_check(self_fn == fn_for(inc), "wrong_function",
                "unit %d.%d incarnation %d runs the function of another "
                "incarnation",
                slot, gen, inc);
    u->runs[inc]++;
    abtmc_check(u->runs[inc] == 1, "ran_twice",
                "unit %d.%d incarnation %d: function entered %d times", slot,
                gen, inc, u->runs[inc]);
    if (!u->hknown) {
        OK(ABT_self_get_thread(&u->h));
        u->hknown = 1;
    } else {
        ABT_thread me;
        OK(ABT_self_get_thread(&me));
        abtmc_check(me == u->h, "handle_changed",
                    "ABT_self_get_thread differs from the creation handle");
    }
    {
        ABT_bool unnamed;
        OK(ABT_self_is_unnamed(&unnamed));
        abtmc_check((unnamed == ABT_TRUE) == !u->named, "named_flag",
                    "ABT_self_is_unnamed=%d for a %s unit", (int)unnamed,
                    u->named ? "named" : "unnamed");
    }
    slice_begin(u, "unit start");
    if (!u->keyset) {
        OK(ABT_self_set_specific(key, (void *)(intptr_t)(slot | (gen << 1))));
        u->keyset = 1;
    }
    if (u->kind == K_TASK) {
        /* documented errors: a tasklet cannot exit or yield */
        int r1 = ABT_self_exit(), r2 = ABT_thread_exit(), r3 = ABT_self_yield();
        abtmc_check(r1 == ABT_ERR_INV_THREAD && r2 == ABT_ERR_INV_THREAD &&
                        r3 == ABT_ERR_INV_THREAD,
                    "tasklet_exit_code",
                    "self_exit/thread_exit/self_yield on a tasklet returned "
                    "%d/%d/%d",
                    r1, r2, r3);
    }
    for (;;) {
        int a = unit_choose(u);
        abtmc_tracef("unit %d.%d inc %d action %d", slot, gen, inc, a);
        switch (a) {
            case A_RET:
                u->fins[inc]++;
                model_terminate(u, 0);
                return;
            case A_SEXIT:
            case A_TEXIT: {
                u->fins[inc]++;
                n_exits++;
                model_terminate(u, 0);
                int r = a == A_SEXIT ? ABT_self_exit() : ABT_thread_exit();
                abtmc_check_fail("code_after_exit",
                                 "%s returned %d to unit %d.%d: code after the "
                                 "exit call executes",
                                 a == A_SEXIT ? "ABT_self_exit"
                                              : "ABT_thread_exit",
                                 r, slot, gen);
                return;
            }
            case A_YIELD: {
                u->yields++;
                int doomed = u->cancel_req;
                if (doomed)
                    model_terminate(u, 1); /* must not come back */
                else
                    u->ms = MS_READY;
                if (u->yields & 1)
                    OK(ABT_thread_yield());
                else
                    OK(ABT_self_yield());
                abtmc_check(!doomed, "slice_after_cancel",
                            "unit %d.%d: yield returned although a cancel "
                            "request was pending when it yielded",
                            slot, gen);
                slice_begin(u, "after yield");
                break;
            }
            default: { /* A_JOIN: block on the other unit */
                unit_t *o = &U[1 - slot];
                o->being_joined = 1;
                o->joiner = slot;
                u->ms = MS_WAITING;
                u->joining = 1;
                OK(ABT_thread_join(o->h));
                u->joining = 0;
                abtmc_check(get_state(o) == ABT_THREAD_STATE_TERMINATED,
                            "join_returned_early",
                            "ABT_thread_join returned to unit %d, target not "
                            "TERMINATED", slot);
                {
                    int st[2] = { -1, -1 };
                    reconcile(st);
                }
                abtmc_check(o->ms == MS_TERM, "join_returned_early",
                            "unit %d joined unit %d which never finished or "
                            "was cancelled (model state %d)",
                            slot, 1 - slot, o->ms);
                o->being_joined = 0;
                slice_begin(u, "after unit-side join");
                break;
            }
        }
    }
}
static void unit_real_a(void *arg) { unit_body(arg, unit_fn_a); }
static void unit_real_b(void *arg) { unit_body(arg, unit_fn_b); }
C12_UNIT_ENTRY(unit_fn_a, unit_real_a)
C12_UNIT_ENTRY(unit_fn_b, unit_real_b)

/* --------------------------------------------------------- primary side */

static void p_create(int slot, int named)
{
    unit_t *u = &U[slot];
    memset(u, 0, sizeof *u);
    u->kind = C->kind[slot];
    u->named = named;
    u->gen = ++gencount[slot];
    abtmc_check(u->gen < MAXGEN, "harness_limit", "too many generations");
    u->joiner = -1;
    u->ms = MS_READY;
    u->h = ABT_THREAD_NULL;
    dexpect[slot][u->gen] = -1;
    void *arg = arg_for(slot, u->gen, 0);
    if (u->kind == K_TASK)
        OK(ABT_task_create(pool0, fn_for(0), arg, named ? &u->h : NULL));
    else
        OK(ABT_thread_create(pool0, fn_for(0), arg,
                             u->kind == K_ULTM ? attr_m : ABT_THREAD_ATTR_NULL,
                             named ? &u->h : NULL));
    u->hknown = named;
    if (named)
        abtmc_check(u->h != ABT_THREAD_NULL, "null_handle", "create gave NULL");
    sample_all("after create");
}

static void p_cancel(int slot)
{
    unit_t *u = &U[slot];
    if (u->kind == K_TASK)
        OK(ABT_task_cancel(u->h));
    else
        OK(ABT_thread_cancel(u->h));
    u->cancel_req = 1;
    u->grace = (u->ms == MS_WAITING);
    /* a request does nothing by itself */
    sample_all("after cancel");
}

static void after_wait(unit_t *u, const char *what)
{
    int slot = (int)(u - U);
    int s = get_state(u);
    abtmc_check(s == ABT_THREAD_STATE_TERMINATED, "join_returned_early",
                "%s(unit %d.%d) returned while the unit is %s", what, slot,
                u->gen, sname(s));
    {
        int st[2] = { -1, -1 };
        reconcile(st);
    }
    abtmc_check(u->ms == MS_TERM, "join_returned_early",
                "%s(unit %d.%d) returned but the unit never finished or was "
                "cancelled (model state %d)",
                what, slot, u->gen, u->ms);
}

static void p_join(int slot)
{
    unit_t *u = &U[slot];
    u->being_joined = 1;
    if (u->kind == K_TASK)
        OK(ABT_task_join(u->h));
    else
        OK(ABT_thread_join(u->h));
    u->being_joined = 0;
    after_wait(u, "ABT_thread_join");
    sample_all("after join");
}

static void p_free(int slot)
{
    unit_t *u = &U[slot];
    ABT_thread h = u->h;
    u->being_joined = 1;
    /* ABT_thread_free = join + release; check the join half through a
     * state sample is impossible afterwards, so look at the model only */
    if (u->kind == K_TASK)
        OK(ABT_task_free(&u->h));
    else
        OK(ABT_thread_free(&u->h));
    u->being_joined = 0;
    u->hknown = 0; /* the handle is dead now */
    {
        int st[2] = { -1, -1 };
        reconcile(st); /* the other unit */
    }
    if ((u->ms == MS_READY || u->ms == MS_WAITING) && u->cancel_req)
        model_terminate(u, 1);
    abtmc_check(u->ms == MS_TERM, "free_returned_early",
                "ABT_thread_free(unit %d.%d) returned but the unit never "
                "finished or was cancelled (model state %d)",
                slot, u->gen, u->ms);
    abtmc_check(u->h == (u->kind == K_TASK ? ABT_TASK_NULL : ABT_THREAD_NULL),
                "free_handle_not_null",
                "ABT_thread_free left the handle set");
    if (u->kind == K_ULTM)
        abtmc_check(!abtmc_ledger_find((void *)h, NULL, NULL), "not_freed",
                    "descriptor of unit %d.%d still allocated after "
                    "ABT_thread_free",
                    slot, u->gen);
    dexpect[slot][u->gen] = u->keyset;
    u->ms = MS_NONE;
    u->hknown = 0;
    sample_all("after free");
}

/* snapshot of READY units before the primary enters the scheduler */
static int was_ready[2], was_slices[2], was_gen[2], was_inc[2], was_cancel[2];
static void before_yield(void)
{
    for (int i = 0; i < 2; i++) {
        was_ready[i] = U[i].ms == MS_READY;
        was_slices[i] = U[i].slices;
        was_gen[i] = U[i].gen;
        was_inc[i] = U[i].inc;
        was_cancel[i] = U[i].cancel_req;
    }
}
static void after_yield(const char *what)
{
    /* the pool is FIFO and the primary went to its tail: every unit that was
     * READY has been scheduled once */
    for (int i = 0; i < 2; i++) {
        unit_t *u = &U[i];
        if (!was_ready[i])
            continue;
        if (was_cancel[i]) {
            if (!u->named) {
                if (u->ms == MS_READY && u->gen == was_gen[i])
                    model_terminate(u, 1); /* gone, freed automatically */
            } else if (u->gen == was_gen[i] && u->inc == was_inc[i]) {
                int s = get_state(u);
                if (u->ms == MS_READY && s == ABT_THREAD_STATE_TERMINATED)
                    model_terminate(u, 1);
                abtmc_check(u->ms == MS_TERM, "cancel_not_honoured",
                            "%s: unit %d.%d was READY with a pending cancel "
                            "request when the primary yielded; after the yield "
                            "it is %s",
                            what, i, u->gen, sname(s));
            }
        } else if (u->gen == was_gen[i] && u->inc == was_inc[i]) {
            abtmc_check(u->slices > was_slices[i], "ready_unit_not_scheduled",
                        "%s: unit %d.%d was READY in the FIFO pool ahead of "
                        "the primary but did not run",
                        what, i, u->gen);
        }
    }
    sample_all(what);
}

static void p_yield(void)
{
    before_yield();
    OK(ABT_thread_yield());
    after_yield("after primary yield");
}

static void p_revive(int slot, int to)
{
    unit_t *u = &U[slot];
    ABT_thread h = u->h;
    abtmc_check(u->inc + 1 < MAXINC, "harness_limit", "too many incarnations");
    u->inc++;
    u->cancel_req = u->grace = u->yields = 0;
    u->revives++;
    n_revive++;
    u->ms = MS_READY;
    void *arg = arg_for(slot, u->gen, u->inc);
    if (to) {
        before_yield();
        was_ready[slot] = 1; /* the revived unit runs first */
        was_slices[slot] = u->slices;
        was_inc[slot] = u->inc;
        was_cancel[slot] = 0;
        OK(ABT_thread_revive_to(pool0, fn_for(u->inc), arg, &u->h));
        abtmc_check(u->h == h, "handle_changed", "revive_to changed the handle");
        after_yield("after revive_to");
    } else {
        if (u->kind == K_TASK)
            OK(ABT_task_revive(pool0, fn_for(u->inc), arg, &u->h));
        else
            OK(ABT_thread_revive(pool0, fn_for(u->inc), arg, &u->h));
        abtmc_check(u->h == h, "handle_changed", "revive changed the handle");
        sample_all("after revive");
    }
}

/* revive of a unit that is not terminated is a documented error */
static void probe_bad_revive(int slot)
{
    unit_t *u = &U[slot];
    ABT_thread h = u->h;
    int r = u->kind == K_TASK
                ? ABT_task_revive(pool0, fn_for(1), arg_for(slot, u->gen, 1), &h)
                : ABT_thread_revive(pool0, fn_for(1), arg_for(slot, u->gen, 1),
                                    &h);
    abtmc_check(r == (u->kind == K_TASK ? ABT_ERR_INV_TASK : ABT_ERR_INV_THREAD),
                "revive_live_unit",
                "revive of a unit that is not terminated returned %d", r);
    sample_all("after rejected revive");
}

/* ------------------------------------------------------------ HIST mode */

enum {
    P_CREATE0N, P_CREATE0U, P_CREATE1N, P_CREATE1U, P_CANCEL0, P_CANCEL1,
    P_JOIN0, P_JOIN1, P_FREE0, P_FREE1, P_REVIVE0, P_REVIVE1, P_REVTO0,
    P_REVTO1, P_YIELD, P_NOPS
};

static int any_ready(void)
{
    return U[0].ms == MS_READY || U[1].ms == MS_READY;
}

static int enabled_ops(int *ops)
{
    int n = 0;
    for (int s = 0; s < 2; s++) {
        unit_t *u = &U[s];
        if (u->ms == MS_NONE) {
            /* symmetric slots: fill slot 0 first */
            if (s == 1 && C->kind[0] == C->kind[1] && gencount[0] == 0)
                continue;
            ops[n++] = P_CREATE0N + 2 * s;
            ops[n++] = P_CREATE0U + 2 * s;
            continue;
        }
        int live = u->ms == MS_READY || u->ms == MS_WAITING;
        if (live && u->hknown && !u->cancel_req)
            ops[n++] = P_CANCEL0 + s;
        if (u->named && !u->being_joined) {
            if (live) /* join of a terminated unit changes nothing */
                ops[n++] = P_JOIN0 + s;
            ops[n++] = P_FREE0 + s;
            if (u->ms == MS_TERM && u->inc + 1 < MAXINC) {
                ops[n++] = P_REVIVE0 + s;
                if (u->kind != K_TASK)
                    ops[n++] = P_REVTO0 + s;
            }
        }
    }
    if (any_ready()) /* yielding to an empty pool changes nothing */
        ops[n++] = P_YIELD;
    return n;
}

static void apply(int op)
{
    abtmc_tracef("primary op %d", op);
    switch (op) {
        case P_CREATE0N: p_create(0, 1); break;
        case P_CREATE0U: p_create(0, 0); break;
        case P_CREATE1N: p_create(1, 1); break;
        case P_CREATE1U: p_create(1, 0); break;
        case P_CANCEL0: p_cancel(0); break;
        case P_CANCEL1: p_cancel(1); break;
        case P_JOIN0: p_join(0); break;
        case P_JOIN1: p_join(1); break;
        case P_FREE0: p_free(0); break;
        case P_FREE1: p_free(1); break;
        case P_REVIVE0: p_revive(0, 0); break;
        case P_REVIVE1: p_revive(1, 0); break;
        case P_REVTO0: p_revive(0, 1); break;
        case P_REVTO1: p_revive(1, 1); break;
        default: p_yield(); break;
    }
}

static int choose_big(int n)
{
    if (n <= 10)
        return abtmc_choose(n, ABTMC_B_FREE);
    int h = n / 2;
    if (abtmc_choose(2, ABTMC_B_FREE) == 0)
        return abtmc_choose(h, ABTMC_B_FREE);
    return h + abtmc_choose(n - h, ABTMC_B_FREE);
}

static void wrap_up(void)
{
    budget = 0; /* units just return from now on */
    for (int round = 0;; round++) {
        abtmc_check(round < 12, "wrapup_stuck",
                    "units do not terminate: states %d/%d", U[0].ms, U[1].ms);
        int did = 0, left = 0;
        for (int s = 0; s < 2; s++) {
            unit_t *u = &U[s];
            if (u->ms == MS_NONE)
                continue;
            left++;
            if (u->named && !u->being_joined) {
                p_free(s);
                did = 1;
                break;
            }
        }
        if (!left)
            break;
        if (!did)
            p_yield();
    }
}

static void run_hist(void)
{
    budget = C->depth;
    while (budget > 0) {
        int ops[P_NOPS];
        int n = enabled_ops(ops);
        if (n == 0)
            break;
        int op = ops[choose_big(n)];
        budget--;
        apply(op);
    }
    wrap_up();
}

/* ------------------------------------------------------------ REV3 mode */

enum { T_RET, T_EXIT, T_YCANCEL, T_CANCEL0 };
enum { W_JOIN, W_POLL };

static void run_rev3(void)
{
    int full = C->depth;
    int ult = C->kind[0] != K_TASK;
    unit_t *u = &U[0];
    int churn = full ? abtmc_choose(2, ABTMC_B_FREE) : 1;
    int to = 0; /* this incarnation is started by ABT_thread_revive_to */
    for (int inc = 0; inc < 4; inc++) {
        /* how this incarnation ends and how the primary waits for it; fixed
         * before it starts because revive_to runs its first slice at once */
        int term;
        if (!ult)
            term = abtmc_choose(2, ABTMC_B_FREE) ? T_CANCEL0 : T_RET;
        else
            term = abtmc_choose(to ? 3 : 4, ABTMC_B_FREE);
        int wait = full ? abtmc_choose(2, ABTMC_B_FREE) : ((inc + term) & 1);
        int script = term == T_EXIT ? ((inc & 1) ? A_TEXIT : A_SEXIT)
                                    : term == T_YCANCEL ? A_YIELD : A_RET;
        if (inc == 0) {
            p_create(0, 1);
            u->forced = script;
            probe_bad_revive(0);
        } else {
            u->forced = script;
            p_revive(0, to);
        }
        abtmc_check(u->inc == inc, "harness", "rev3 out of step");
        if (term == T_CANCEL0) {
            p_cancel(0);
        } else if (term == T_YCANCEL) {
            if (!to)
                p_yield(); /* first slice; the unit yields */
            abtmc_check(u->ms == MS_READY && u->runs[inc] == 1, "harness",
                        "rev3 script out of step (state %d)", u->ms);
            probe_bad_revive(0);
            p_cancel(0);
        }
        if (wait == W_JOIN) {
            p_join(0);
        } else {
            for (int k = 0; u->ms != MS_TERM; k++) {
                abtmc_check(k < 4, "cancel_not_honoured",
                            "unit still in state %d after 4 primary yields",
                            u->ms);
                p_yield();
            }
        }
        int want_runs = term == T_CANCEL0 ? 0 : 1;
        int want_fins = (term == T_RET || term == T_EXIT) ? 1 : 0;
        abtmc_check(u->runs[inc] == want_runs && u->fins[inc] == want_fins,
                    "revive_run_count",
                    "incarnation %d: function entered %d times (expected %d), "
                    "finished %d times (expected %d)",
                    inc, u->runs[inc], want_runs, u->fins[inc], want_fins);
        if (inc == 3)
            break;
        if (churn) {
            /* recycle descriptors: an unnamed unit comes and goes */
            p_create(1, 0);
            U[1].forced = A_RET;
            p_yield();
            abtmc_check(U[1].ms == MS_NONE, "harness", "churn unit still there");
        }
        to = ult ? (full ? abtmc_choose(2, ABTMC_B_FREE) : ((inc + term) & 1)) : 0;
    }
    abtmc_check(u->ms == MS_TERM && u->revives == 3, "harness",
                "rev3: %d revives, state %d", u->revives, u->ms);
    p_free(0);
}

/* ---------------------------------------------------------- DIRECT mode */
/* A switches directly to B with ABT_self_suspend_to / ABT_self_yield_to /
 * ABT_self_exit_to; B, as its first action, reads its own state (must be
 * RUNNING: it is executing) and A's (BLOCKED / READY / TERMINATED). */
enum { D_SUSPEND_TO, D_YIELD_TO, D_EXIT_TO };
static ABT_thread dA, dB;
static int d_variant, d_b_ran, d_a_back;

static int state_of(ABT_thread t)
{
    ABT_thread_state s;
    OK(ABT_thread_get_state(t, &s));
    nsamples++;
    return (int)s;
}

static void direct_B(void *arg)
{
    static const char *const vn[] = { "ABT_self_suspend_to", "ABT_self_yield_to",
                                      "ABT_self_exit_to" };
    ABT_thread me;
    OK(ABT_self_get_thread(&me));
    abtmc_check(me == dB, "harness", "B is not B");
    d_b_ran++;
    int sb = state_of(me), sa = state_of(dA);
    abtmc_check(sb == ABT_THREAD_STATE_RUNNING, "self_state_not_running",
                "the target of %s executes while ABT_thread_get_state reports "
                "it as %s",
                vn[d_variant], sname(sb));
    int want = d_variant == D_SUSPEND_TO
                   ? ABT_THREAD_STATE_BLOCKED
                   : d_variant == D_YIELD_TO ? ABT_THREAD_STATE_READY
                                             : ABT_THREAD_STATE_TERMINATED;
    abtmc_check(sa == want, "state_mismatch",
                "after %s the caller's state is %s, expected %s", vn[d_variant],
                sname(sa), sname(want));
    if (d_variant == D_SUSPEND_TO)
        OK(ABT_thread_resume(dA));
}

static void direct_A(void *arg)
{
    ABT_thread t = ABT_THREAD_NULL;
    abtmc_check(state_of(dA) == ABT_THREAD_STATE_RUNNING,
                "self_state_not_running", "A reads its own state as not RUNNING");
    /* the user pops the target before a directed switch */
    OK(ABT_pool_pop_thread(pool0, &t));
    abtmc_check(t == dB, "harness", "popped something else than B");
    switch (d_variant) {
        case D_SUSPEND_TO: OK(ABT_self_suspend_to(dB)); break;
        case D_YIELD_TO: OK(ABT_self_yield_to(dB)); break;
        default: {
            int r = ABT_self_exit_to(dB);
            abtmc_check_fail("code_after_exit", "ABT_self_exit_to returned %d",
                             r);
        }
    }
    d_a_back++;
    abtmc_check(d_b_ran == 1, "directed_switch_order",
                "the caller continued before the target ran");
    abtmc_check(state_of(dA) == ABT_THREAD_STATE_RUNNING,
                "self_state_not_running",
                "A reads its own state as not RUNNING after being resumed");
}

static void run_direct(void)
{
    d_variant = abtmc_choose(3, ABTMC_B_FREE);
    OK(ABT_thread_create(pool0, direct_A, NULL, ABT_THREAD_ATTR_NULL, &dA));
    OK(ABT_thread_create(pool0, direct_B, NULL, ABT_THREAD_ATTR_NULL, &dB));
    abtmc_check(state_of(dA) == ABT_THREAD_STATE_READY &&
                    state_of(dB) == ABT_THREAD_STATE_READY,
                "state_mismatch", "created units are not READY");
    OK(ABT_thread_join(dA));
    OK(ABT_thread_join(dB));
    abtmc_check(state_of(dA) == ABT_THREAD_STATE_TERMINATED &&
                    state_of(dB) == ABT_THREAD_STATE_TERMINATED,
                "join_returned_early", "joined units are not TERMINATED");
    abtmc_check(d_b_ran == 1 && d_a_back == (d_variant != D_EXIT_TO), "ran_twice",
                "B ran %d times, A continued %d times", d_b_ran, d_a_back);
    OK(ABT_thread_free(&dA));
    OK(ABT_thread_free(&dB));
    n_exits = d_variant; /* outcome tag */
}

/* -------------------------------------------------------------- scenario */

static void scenario(int cfg)
{
    C = &cfgs[cfg];
    abtmc_std_env();
    setenv("ABT_THREAD_STACKSIZE", "65536", 1);
    OK(ABT_init(0, NULL));
    pool0 = h_main_pool(h_self_xstream());
    OK(ABT_key_create(key_destructor, &key));
    OK(ABT_thread_attr_create(&attr_m));
    OK(ABT_thread_attr_set_stacksize(attr_m, MALLOC_STACK));
    U[0].joiner = U[1].joiner = -1;

    abtmc_window_begin();
    if (C->mode == M_HIST)
        run_hist();
    else if (C->mode == M_REV3)
        run_rev3();
    else
        run_direct();
    abtmc_window_end();

    sample_all("end");
    abtmc_check(U[0].ms == MS_NONE && U[1].ms == MS_NONE, "harness",
                "units left at the end");
    OK(ABT_thread_attr_free(&attr_m));
    OK(ABT_key_free(&key));
    abtmc_observe("cancelled=%d revives=%d blocked=%d exits=%d",
                  n_cancel_term > 2 ? 2 : n_cancel_term,
                  n_revive > 3 ? 3 : n_revive, n_blocked_seen,
                  C->mode == M_DIRECT ? n_exits : n_exits > 1 ? 1 : n_exits);
    abtmc_stat("state_samples", nsamples);
    abtmc_stat("slices", n_slices);
    h_finalize();
    abtmc_check(abtmc_ledger_live() == 0, "leak",
                "%ld allocations of libabt still live after ABT_finalize",
                abtmc_ledger_live());
}

static const char *cfg_name(int i) { return cfgs[i].name; }
static int cfg_quick(int i) { return cfgs[i].quick; }

int main(int argc, char **argv)
{
    static abtmc_driver d = { "c12_life", "C12", ARRAY_LEN(cfgs), cfg_name,
                              scenario, cfg_quick };
    return abtmc_main(argc, argv, &d);
}
