/* c01_stackwait.c -- C01 for a STACKED scheduler of the waiting kind
 * (ABT_SCHED_BASIC_WAIT added to a pool with ABT_pool_add_sched): "no work unit
 * is ever dropped ... whatever pools, schedulers (incl. stacked ones), yields
 * and blocking operations are involved".
 *
 *   ES1 (default scheduler, pool P1) runs the stacked scheduler S as a work
 *   unit; S serves Q (FIFO_WAIT or FIFO).  W (ULT in Q) blocks on an eventual,
 *   so Q is empty but S may not finish (a blocked unit belongs to Q); S then
 *   sits in its blocking pop.  The primary ULT (or X) sets the eventual: W is
 *   pushed to Q while S waits, S pops and runs it, W yields `nyield` times and
 *   returns.  In one config W creates a second unit V in Q before it returns.
 * Oracle: W and V run to completion exactly once and the joins return. */
#include "common.h"

typedef struct {
    const char *name;
    int quick, pool_wait, sched_wait, nyield, with_v, setter_ext;
    int predef; /* 0: BASIC/BASIC_WAIT by sched_wait; else ABT_sched_predef + 1 */
} cfg_t;
static const cfg_t cfgs[] = {
    { "BASIC_WAIT over FIFO_WAIT stacked in ES1's pool: W blocks, is released, yields "
      "once", 1, 1, 1, 1, 0, 0 },
    { "BASIC_WAIT over FIFO_WAIT stacked: W blocks, X releases it, W creates V in Q "
      "and returns", 1, 1, 1, 0, 1, 1 },
    { "BASIC_WAIT over FIFO (no blocking pop) stacked: W blocks, released, yields "
      "twice", 0, 0, 1, 2, 0, 0 },
    { "BASIC over FIFO stacked (control): W blocks, released, yields once", 0, 0, 0, 1,
      0, 0 },
    { "PRIO over FIFO stacked: W blocks, X releases it, W creates V and yields", 0, 0, 0,
      1, 1, 1, ABT_SCHED_PRIO + 1 },
    { "RANDWS over FIFO stacked: W blocks, released, W creates V and yields twice", 0, 0,
      0, 2, 1, 0, ABT_SCHED_RANDWS + 1 },
    { "BASIC_WAIT over FIFO_WAIT stacked: X releases W, W creates V and yields twice",
      0, 1, 1, 2, 1, 1 },
};

static const cfg_t *C;
static ABT_pool Q;
static ABT_eventual EV;
static ABT_thread W, V;
static int w_runs, w_done, v_runs, w_blocking;

static void v_fn(void *arg);

static void w_fn(void *arg)
{
    (void)arg;
    w_runs++;
    abtmc_store(&w_blocking, 1);
    OK(ABT_eventual_wait(EV, NULL));
    /* pushed while S is running W: S cannot have finished */
    if (C->with_v)
        OK(ABT_thread_create(Q, v_fn, NULL, ABT_THREAD_ATTR_NULL, &V));
    for (int i = 0; i < C->nyield; i++)
        OK(ABT_thread_yield());
    w_done++;
}

static void v_fn(void *arg)
{
    (void)arg;
    v_runs++;
}

static void release_fn(void *arg)
{
    int ext = (int)(intptr_t)arg;
    /* W is really blocked (its state says so) before the eventual is set */
    for (;;) {
        ABT_thread_state st;
        if (abtmc_load(&w_blocking)) {
            OK(ABT_thread_get_state(W, &st));
            if (st == ABT_THREAD_STATE_BLOCKED)
                break;
        }
        if (ext)
            abtmc_spin_hint(3001, &W);
        else
            OK(ABT_thread_yield());
    }
    OK(ABT_eventual_set(EV, NULL, 0));
}

static void scenario(int cfg)
{
    C = &cfgs[cfg];
    h_init();
    ABT_xstream es1;
    ABT_sched s;
    OK(ABT_xstream_create(ABT_SCHED_NULL, &es1));
    ABT_pool p1 = h_main_pool(es1);
    OK(ABT_pool_create_basic(C->pool_wait ? ABT_POOL_FIFO_WAIT : ABT_POOL_FIFO,
                             ABT_POOL_ACCESS_MPMC, ABT_TRUE, &Q));
    ABT_sched_predef pd = C->predef ? (ABT_sched_predef)(C->predef - 1)
                                    : C->sched_wait ? ABT_SCHED_BASIC_WAIT
                                                    : ABT_SCHED_BASIC;
    OK(ABT_sched_create_basic(pd, 1, &Q, ABT_SCHED_CONFIG_NULL, &s));
    OK(ABT_eventual_create(0, &EV));

    abtmc_window_begin();
    OK(ABT_thread_create(Q, w_fn, NULL, ABT_THREAD_ATTR_NULL, &W));
    OK(ABT_pool_add_sched(p1, s)); /* after W exists: S does not finish at once */
    int x = -1;
    if (C->setter_ext)
        x = abtmc_thread_create(release_fn, (void *)(intptr_t)1);
    else
        release_fn((void *)(intptr_t)0);
    if (x >= 0)
        abtmc_thread_join(x);
    OK(ABT_thread_join(W));
    if (C->with_v)
        OK(ABT_thread_join(V));
    abtmc_window_end();

    abtmc_check(w_runs == 1 && w_done == 1, "run_count",
                "W started %d times and completed %d times", w_runs, w_done);
    if (C->with_v)
        abtmc_check(v_runs == 1, "run_count", "V ran %d times", v_runs);
    OK(ABT_thread_free(&W));
    if (C->with_v)
        OK(ABT_thread_free(&V));
    OK(ABT_xstream_join(es1));
    OK(ABT_xstream_free(&es1));
    OK(ABT_eventual_free(&EV));
    h_finalize();
    abtmc_check(abtmc_ledger_live() == 0, "leak", "%ld live allocations",
                abtmc_ledger_live());
}

static const char *cfg_name(int i) { return cfgs[i].name; }
static int cfg_quick(int i) { return cfgs[i].quick; }

int main(int argc, char **argv)
{
    static abtmc_driver d = { "c01_stackwait", "C01", ARRAY_LEN(cfgs), cfg_name,
                              scenario, cfg_quick };
    return abtmc_main(argc, argv, &d);
}
