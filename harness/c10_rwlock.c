/* c10_rwlock.c -- C10: ABT_rwlock: writers exclusive, readers shared, nobody
 * stuck.  2-3 lockers drawn from {ULT on ES0, ULT on ES1, external thread},
 * each a reader or a writer doing 1-2 rounds of lock / critical section /
 * unlock.  "Rendezvous" configs make the readers wait for each other *inside*
 * their read-side critical sections, so the execution terminates only if the
 * read lock is really shared. */
#include "common.h"

enum { A_U0, A_U1, A_EXT, A_US, A_TASK1 /* tasklet on ES1: must be refused */ };  /* actor kinds; A_US: ULT in a pool shared by
                                     * two extra streams (may resume elsewhere) */
enum { R, W };               /* roles */

typedef struct {
    int actor, role, rounds, yield_in_cs;
} actor_t;

typedef struct {
    const char *name;
    int quick;
    int rendezvous; /* the readers meet inside their read-side sections */
    int nactors;
    actor_t a[3];
} cfg_t;

#define ACT(a, role, rounds, y) { a, role, rounds, y }
static const cfg_t cfgs[] = {
    /* ---- quick ---- */
    { "RR rendezvous U0+U1", 1, 1, 2,
      { ACT(A_U0, R, 1, 0), ACT(A_U1, R, 1, 0) } },
    { "RW U0+U1", 1, 0, 2, { ACT(A_U0, R, 1, 0), ACT(A_U1, W, 1, 0) } },
    { "WW U0+X", 1, 0, 2, { ACT(A_U0, W, 1, 0), ACT(A_EXT, W, 1, 0) } },
    { "RW U0+U0 (yield in cs)", 1, 0, 2,
      { ACT(A_U0, R, 1, 1), ACT(A_U0, W, 1, 1) } },
    { "W2RR rendezvous U0+U0+U0 (yield in cs)", 1, 1, 3,
      { ACT(A_U0, W, 2, 1), ACT(A_U0, R, 1, 0), ACT(A_U0, R, 1, 0) } },
    { "W2R U1(2 rounds)+X", 1, 0, 2,
      { ACT(A_U1, W, 2, 0), ACT(A_EXT, R, 1, 0) } },
    { "RRW U0+U1+X", 1, 0, 3,
      { ACT(A_U0, R, 1, 0), ACT(A_U1, R, 1, 0), ACT(A_EXT, W, 1, 0) } },
    { "RR rendezvous X+X", 1, 1, 2,
      { ACT(A_EXT, R, 1, 0), ACT(A_EXT, R, 1, 0) } },
    { "WRR rendezvous U1+U0+X", 1, 1, 3,
      { ACT(A_U1, W, 1, 0), ACT(A_U0, R, 1, 0), ACT(A_EXT, R, 1, 0) } },
    { "RWW U0+U1+X", 1, 0, 3,
      { ACT(A_U0, R, 1, 0), ACT(A_U1, W, 1, 0), ACT(A_EXT, W, 1, 0) } },
    /* ---- thorough ---- */
    { "WRR U1+U0+X", 0, 0, 3,
      { ACT(A_U1, W, 1, 0), ACT(A_U0, R, 1, 0), ACT(A_EXT, R, 1, 0) } },
    { "RR rendezvous U0+U0", 0, 1, 2,
      { ACT(A_U0, R, 1, 0), ACT(A_U0, R, 1, 0) } },
    { "RR rendezvous U0+X", 0, 1, 2,
      { ACT(A_U0, R, 1, 0), ACT(A_EXT, R, 1, 0) } },
    { "RW X+X", 0, 0, 2, { ACT(A_EXT, R, 1, 0), ACT(A_EXT, W, 1, 0) } },
    { "W2W2 U0+U1 (2 rounds each)", 0, 0, 2,
      { ACT(A_U0, W, 2, 0), ACT(A_U1, W, 2, 0) } },
    { "R2W2 U0+U1 (2 rounds each)", 0, 0, 2,
      { ACT(A_U0, R, 2, 0), ACT(A_U1, W, 2, 0) } },
    { "RRW U0+U0+U1 (yield in cs)", 0, 0, 3,
      { ACT(A_U0, R, 1, 1), ACT(A_U0, R, 1, 1), ACT(A_U1, W, 1, 0) } },
    { "WRR U0+U0+X (yield in cs)", 0, 0, 3,
      { ACT(A_U0, W, 1, 1), ACT(A_U0, R, 1, 1), ACT(A_EXT, R, 1, 0) } },
    { "RRR rendezvous U0+U1+X", 0, 1, 3,
      { ACT(A_U0, R, 1, 0), ACT(A_U1, R, 1, 0), ACT(A_EXT, R, 1, 0) } },
    { "WRR rendezvous X+U0+U1", 0, 1, 3,
      { ACT(A_EXT, W, 1, 0), ACT(A_U0, R, 1, 0), ACT(A_U1, R, 1, 0) } },
    /* ---- lockers in a pool served by two streams: a blocked locker may be
     * resumed on another stream and then has to wait a second time */
    { "W2W2 US+US (pool shared by 2 streams, 2 rounds each) + X.R", 0, 0, 3,
      { ACT(A_US, W, 2, 0), ACT(A_US, W, 2, 0), ACT(A_EXT, R, 1, 0) } },
    { "WRR US+US+X (pool shared by 2 streams, yield in cs)", 0, 0, 3,
      { ACT(A_US, W, 2, 1), ACT(A_US, R, 1, 1), ACT(A_EXT, R, 1, 0) } },
    /* a tasklet may not take a rwlock with the 1.x API: it gets ABT_ERR_RWLOCK,
     * holds nothing and leaves the lock usable for everybody else */
    { "W U0 (yield in cs) + R U1 + tasklet@ES1.rdlock (refused)", 1, 0, 3,
      { ACT(A_U0, W, 1, 1), ACT(A_U1, R, 1, 0), ACT(A_TASK1, R, 1, 0) } },
    { "R X + R U0 + tasklet@ES1.wrlock (refused)", 0, 0, 3,
      { ACT(A_EXT, R, 1, 0), ACT(A_U0, R, 1, 0), ACT(A_TASK1, W, 1, 0) } },
    { "W2 R2 W US+US+US (pool shared by 2 streams)", 0, 0, 3,
      { ACT(A_US, W, 2, 0), ACT(A_US, R, 2, 0), ACT(A_US, W, 1, 0) } },
};

static const cfg_t *C;
static ABT_rwlock rwl;
/* holder counters: hooked (readers update them concurrently) */
static int readers, writers;
static int inside[3];        /* rendezvous flags (hooked) */
static int done_rounds[3];   /* per-actor, read by main after the join */
static long acq_stamp[3][2]; /* abtmc_step() right after each acquisition */
static int overlap_seen[3];  /* a reader saw another reader inside */

static void wait_flag(const actor_t *a, const int *flag)
{
    if (a->actor == A_EXT) {
        abtmc_wait_until_eq(flag, 1);
    } else {
        while (abtmc_load(flag) != 1)
            OK(ABT_thread_yield());
    }
}

static void actor_body(void *arg)
{
    int idx = (int)(intptr_t)arg;
    const actor_t *a = &C->a[idx];
    if (a->actor == A_TASK1) {
        int rc = a->role == R ? ABT_rwlock_rdlock(rwl) : ABT_rwlock_wrlock(rwl);
        abtmc_check(rc == ABT_ERR_RWLOCK, "rwlock_tasklet",
                    "ABT_rwlock_%s called by a tasklet returned %d (1.x API: "
                    "ABT_ERR_RWLOCK)", a->role == R ? "rdlock" : "wrlock", rc);
        done_rounds[idx] = a->rounds;
        return;
    }
    for (int r = 0; r < a->rounds; r++) {
        if (a->role == R) {
            OK(ABT_rwlock_rdlock(rwl));
            int nr = abtmc_fetch_add(&readers, 1) + 1;
            acq_stamp[idx][r] = abtmc_step();
            int nw = abtmc_load(&writers);
            abtmc_check(nw == 0, "reader_with_writer",
                        "reader %d entered while %d writer(s) hold the lock",
                        idx, nw);
            if (nr > 1)
                overlap_seen[idx] = 1;
            if (C->rendezvous) {
                /* every reader waits, inside its read-side critical section,
                 * until all the others are inside too */
                abtmc_store(&inside[idx], 1);
                for (int j = 0; j < C->nactors; j++)
                    if (j != idx && C->a[j].role == R)
                        wait_flag(a, &inside[j]);
                overlap_seen[idx] = 1;
            } else if (a->yield_in_cs && a->actor != A_EXT) {
                OK(ABT_thread_yield());
            }
            nw = abtmc_load(&writers);
            abtmc_check(nw == 0, "reader_with_writer",
                        "writer entered while reader %d holds the lock", idx);
            if (abtmc_fetch_add(&readers, -1) > 1)
                overlap_seen[idx] = 1;
            OK(ABT_rwlock_unlock(rwl));
        } else {
            OK(ABT_rwlock_wrlock(rwl));
            int nw = abtmc_fetch_add(&writers, 1) + 1;
            acq_stamp[idx][r] = abtmc_step();
            int nr = abtmc_load(&readers);
            abtmc_check(nw == 1, "writer_with_writer",
                        "%d writers hold the lock", nw);
            abtmc_check(nr == 0, "writer_with_reader",
                        "writer %d entered while %d reader(s) hold the lock",
                        idx, nr);
            if (a->yield_in_cs && a->actor != A_EXT)
                OK(ABT_thread_yield());
            nr = abtmc_load(&readers);
            abtmc_check(nr == 0, "writer_with_reader",
                        "%d reader(s) entered while writer %d holds the lock",
                        nr, idx);
            nw = abtmc_fetch_add(&writers, -1);
            abtmc_check(nw == 1, "writer_with_writer",
                        "%d writers hold the lock (at exit)", nw);
            OK(ABT_rwlock_unlock(rwl));
        }
        done_rounds[idx]++;
    }
}

static void scenario(int cfg)
{
    C = &cfgs[cfg];
    h_init();
    ABT_xstream es1 = ABT_XSTREAM_NULL;
    int need_es1 = 0;
    for (int i = 0; i < C->nactors; i++)
        if (C->a[i].actor == A_U1 || C->a[i].actor == A_TASK1)
            need_es1 = 1;
    OK(ABT_rwlock_create(&rwl));
    if (need_es1)
        OK(ABT_xstream_create(ABT_SCHED_NULL, &es1));
    ABT_pool p0 = h_main_pool(h_self_xstream());
    ABT_pool p1 = need_es1 ? h_main_pool(es1) : ABT_POOL_NULL;
    int need_shared = 0;
    for (int i = 0; i < C->nactors; i++)
        if (C->a[i].actor == A_US)
            need_shared = 1;
    ABT_pool ps = ABT_POOL_NULL;
    ABT_xstream esa = ABT_XSTREAM_NULL, esb = ABT_XSTREAM_NULL;
    if (need_shared) {
        ABT_sched sa, sb;
        OK(ABT_pool_create_basic(ABT_POOL_FIFO, ABT_POOL_ACCESS_MPMC, ABT_TRUE, &ps));
        OK(ABT_sched_create_basic(ABT_SCHED_BASIC, 1, &ps, ABT_SCHED_CONFIG_NULL, &sa));
        OK(ABT_sched_create_basic(ABT_SCHED_BASIC, 1, &ps, ABT_SCHED_CONFIG_NULL, &sb));
        OK(ABT_xstream_create(sa, &esa));
        OK(ABT_xstream_create(sb, &esb));
    }

    abtmc_window_begin();
    ABT_thread th[3] = { ABT_THREAD_NULL, ABT_THREAD_NULL, ABT_THREAD_NULL };
    int xt[3] = { -1, -1, -1 };
    /* all lockers on the primary ES: the run is sequential given the creation
     * order, so enumerate the order (pool is FIFO) */
    int rot = 0, all_u0 = 1;
    for (int i = 0; i < C->nactors; i++)
        if (C->a[i].actor != A_U0)
            all_u0 = 0;
    if (all_u0)
        rot = abtmc_choose(C->nactors, ABTMC_B_FREE);
    for (int k = 0; k < C->nactors; k++) {
        int i = (k + rot) % C->nactors;
        void *arg = (void *)(intptr_t)i;
        switch (C->a[i].actor) {
            case A_U0:
                OK(ABT_thread_create(p0, actor_body, arg, ABT_THREAD_ATTR_NULL,
                                     &th[i]));
                break;
            case A_U1:
                OK(ABT_thread_create(p1, actor_body, arg, ABT_THREAD_ATTR_NULL,
                                     &th[i]));
                break;
            case A_US:
                OK(ABT_thread_create(ps, actor_body, arg, ABT_THREAD_ATTR_NULL,
                                     &th[i]));
                break;
            case A_TASK1:
                OK(ABT_task_create(p1, actor_body, arg, &th[i]));
                break;
            default:
                xt[i] = abtmc_thread_create(actor_body, arg);
                break;
        }
    }
    /* ULTs first: the primary ES must keep scheduling while they run */
    for (int i = 0; i < C->nactors; i++)
        if (th[i] != ABT_THREAD_NULL)
            OK(ABT_thread_free(&th[i]));
    for (int i = 0; i < C->nactors; i++)
        if (xt[i] >= 0)
            abtmc_thread_join(xt[i]);
    abtmc_window_end();

    /* oracle at quiescence */
    abtmc_check(readers == 0 && writers == 0, "holders_at_end",
                "readers=%d writers=%d at the end", readers, writers);
    for (int i = 0; i < C->nactors; i++)
        abtmc_check(done_rounds[i] == C->a[i].rounds, "lost_locker",
                    "actor %d finished %d of %d rounds", i, done_rounds[i],
                    C->a[i].rounds);
    /* outcome: acquisition order (by stamp) + which readers overlapped */
    {
        char tag[32];
        int n = 0, used[3][2] = { { 0 } };
        for (;;) {
            int bi = -1, br = -1;
            for (int i = 0; i < C->nactors; i++)
                for (int r = 0; r < C->a[i].rounds; r++)
                    if (!used[i][r] &&
                        (bi < 0 || acq_stamp[i][r] < acq_stamp[bi][br])) {
                        bi = i;
                        br = r;
                    }
            if (bi < 0)
                break;
            used[bi][br] = 1;
            tag[n++] = (char)('0' + bi);
            tag[n++] = C->a[bi].role == R ? 'r' : 'w';
        }
        tag[n] = 0;
        abtmc_observe("order=%s shared=%d%d%d", tag, overlap_seen[0],
                      overlap_seen[1], overlap_seen[2]);
    }
    /* the lock must be completely free now */
    OK(ABT_rwlock_wrlock(rwl));
    OK(ABT_rwlock_unlock(rwl));
    OK(ABT_rwlock_rdlock(rwl));
    OK(ABT_rwlock_unlock(rwl));
    OK(ABT_rwlock_free(&rwl));
    if (need_es1) {
        OK(ABT_xstream_join(es1));
        OK(ABT_xstream_free(&es1));
    }
    if (need_shared) {
        OK(ABT_xstream_join(esa));
        OK(ABT_xstream_join(esb));
        OK(ABT_xstream_free(&esa));
        OK(ABT_xstream_free(&esb));
    }
    h_finalize();
}

static const char *cfg_name(int i) { return cfgs[i].name; }
static int cfg_quick(int i) { return cfgs[i].quick; }

int main(int argc, char **argv)
{
    static abtmc_driver d = { "c10_rwlock", "C10", ARRAY_LEN(cfgs), cfg_name,
                              scenario, cfg_quick };
    return abtmc_main(argc, argv, &d);
}
