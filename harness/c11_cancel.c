/* c11_cancel.c -- C11 x C12 x C03 second-order interaction: a ULT that has a
 * pending cancellation request (or not) and a joiner blocked on it performs a
 * suspend-type or yield-type switch.  "suspend / suspend_to / resume_suspend_to
 * leave the caller blocked": it stays BLOCKED until it is resumed, its joiner
 * is not released before it has really terminated, and after the resume the
 * cancellation is honoured at its next scheduling point (it runs no further
 * code).  Yield-type switches may honour the cancellation at once.
 * One stream, sequential: every (primitive, cancel?, joiner?) combination is
 * one execution (abtmc_choose FREE). */
#include "common.h"

enum { P_SUSPEND, P_SUSPEND_TO, P_RESUME_SUSPEND_TO, P_YIELD, P_YIELD_TO,
       P_RESUME_YIELD_TO, NPRIM };
static const char *pname[] = { "suspend", "suspend_to", "resume_suspend_to",
                               "yield", "yield_to", "resume_yield_to" };

static int prim, with_cancel, with_joiner, a_named_join_by_ult;
static ABT_thread A, B, C, J;
static ABT_pool P0, scratch;
static int a_before, a_after, join_returned, obs_done, a_switching;
static ABT_thread_state obs_state = (ABT_thread_state)-1;
static int obs_jr = -1;

static int is_suspend_type(int p) { return p <= P_RESUME_SUSPEND_TO; }

/* runs right after A's switch (as B or C): what does the world look like? */
static void observe(void)
{
    OK(ABT_thread_get_state(A, &obs_state));
    obs_jr = join_returned;
    obs_done = 1;
    abtmc_progress();
    if (obs_state == ABT_THREAD_STATE_BLOCKED) {
        abtmc_check(obs_jr == 0, "join_returned_for_blocked_target",
                    "after %s%s: the target reads BLOCKED but its joiner has "
                    "already returned", with_cancel ? "cancel+" : "", pname[prim]);
        OK(ABT_thread_resume(A));
    }
}

static void b_fn(void *arg)
{
    (void)arg;
    if (prim == P_RESUME_SUSPEND_TO || prim == P_RESUME_YIELD_TO) {
        /* be the BLOCKED target of A's resume_* primitive */
        OK(ABT_self_suspend());
    }
    /* observe only once A has performed its switch */
    while (!a_switching)
        OK(ABT_thread_yield());
    if (!obs_done)
        observe();
}

static void c_fn(void *arg)
{
    (void)arg;
    if (!obs_done)
        observe();
}

static void a_fn(void *arg)
{
    (void)arg;
    a_before++;
    if (with_joiner)
        OK(ABT_thread_yield()); /* let the joiner block on us first */
    if (with_cancel)
        OK(ABT_thread_cancel(A));
    a_switching = 1;
    switch (prim) {
        case P_SUSPEND: OK(ABT_self_suspend()); break;
        case P_SUSPEND_TO: OK(ABT_self_suspend_to(C)); break;
        case P_RESUME_SUSPEND_TO: OK(ABT_self_resume_suspend_to(B)); break;
        case P_YIELD: OK(ABT_thread_yield()); break;
        case P_YIELD_TO: OK(ABT_self_yield_to(C)); break;
        case P_RESUME_YIELD_TO: OK(ABT_self_resume_yield_to(B)); break;
    }
    a_after++;
}

static void j_fn(void *arg)
{
    (void)arg;
    ABT_thread_state st;
    OK(ABT_thread_join(A));
    join_returned = 1;
    OK(ABT_thread_get_state(A, &st));
    abtmc_check(st == ABT_THREAD_STATE_TERMINATED, "join_before_terminated",
                "after %s%s: ABT_thread_join returned while the target's state "
                "is %d, not TERMINATED (a_after=%d)", with_cancel ? "cancel+" : "",
                pname[prim], (int)st, a_after);
}

static void scenario(int cfg)
{
    (void)cfg;
    h_init();
    P0 = h_main_pool(h_self_xstream());
    OK(ABT_pool_create_basic(ABT_POOL_FIFO, ABT_POOL_ACCESS_MPMC, ABT_FALSE,
                             &scratch));
    abtmc_window_begin();
    prim = abtmc_choose(NPRIM, ABTMC_B_FREE);
    with_cancel = abtmc_choose(2, ABTMC_B_FREE);
    with_joiner = abtmc_choose(2, ABTMC_B_FREE);
    int resume_kind = (prim == P_RESUME_SUSPEND_TO || prim == P_RESUME_YIELD_TO);
    int to_kind = (prim == P_SUSPEND_TO || prim == P_YIELD_TO);
    if (resume_kind) {
        /* B first: it suspends and becomes the BLOCKED target */
        OK(ABT_thread_create(P0, b_fn, NULL, ABT_THREAD_ATTR_NULL, &B));
        OK(ABT_thread_yield()); /* let B block */
        ABT_thread_state sb;
        OK(ABT_thread_get_state(B, &sb));
        abtmc_check(sb == ABT_THREAD_STATE_BLOCKED, "harness", "B not blocked");
    }
    if (to_kind) {
        /* a READY target that is in no pool and has never run */
        ABT_thread t;
        OK(ABT_thread_create(scratch, c_fn, NULL, ABT_THREAD_ATTR_NULL, &C));
        OK(ABT_pool_pop_thread(scratch, &t));
    }
    OK(ABT_thread_create(P0, a_fn, NULL, ABT_THREAD_ATTR_NULL, &A));
    if (with_joiner)
        OK(ABT_thread_create(P0, j_fn, NULL, ABT_THREAD_ATTR_NULL, &J));
    if (!resume_kind)
        OK(ABT_thread_create(P0, b_fn, NULL, ABT_THREAD_ATTR_NULL, &B));
    /* let everything run: the joiner J (if any) blocks on A before A ran
     * only if it is scheduled first, so order J before A when asked */
    (void)a_named_join_by_ult;
    /* the primary waits for the observer, then for the end of A */
    while (!obs_done)
        OK(ABT_thread_yield());
    /* only one joiner per unit: with J present the primary waits for J */
    if (with_joiner)
        OK(ABT_thread_join(J));
    else
        OK(ABT_thread_join(A));
    abtmc_window_end();

    ABT_thread_state st;
    OK(ABT_thread_get_state(A, &st));
    abtmc_check(st == ABT_THREAD_STATE_TERMINATED, "join_before_terminated",
                "primary's join returned, state %d", (int)st);
    abtmc_check(a_before == 1, "run_count", "A started %d times", a_before);
    if (is_suspend_type(prim)) {
        abtmc_check(obs_state == ABT_THREAD_STATE_BLOCKED, "caller_not_blocked",
                    "after %s%s the caller's state is %d, not BLOCKED",
                    with_cancel ? "cancel+" : "", pname[prim], (int)obs_state);
    } else if (!with_cancel) {
        abtmc_check(obs_state == ABT_THREAD_STATE_READY, "caller_not_ready",
                    "after %s the caller's state is %d, not READY", pname[prim],
                    (int)obs_state);
    } else {
        abtmc_check(obs_state == ABT_THREAD_STATE_READY ||
                        obs_state == ABT_THREAD_STATE_TERMINATED,
                    "caller_state", "after cancel+%s the caller's state is %d",
                    pname[prim], (int)obs_state);
    }
    abtmc_check(a_after == (with_cancel ? 0 : 1), "cancel_semantics",
                "%s%s: A ran %d continuation(s) after the switch (expected %d)",
                with_cancel ? "cancel+" : "", pname[prim], a_after,
                with_cancel ? 0 : 1);
    if (with_joiner) {
        OK(ABT_thread_free(&J));
        abtmc_check(join_returned == 1, "lost_joiner", "joiner never returned");
    }
    abtmc_check(h_pool_blocked(P0) == 0, "blocked_count",
                "pool reports %d blocked units at the end", h_pool_blocked(P0));
    abtmc_observe("%s c%d j%d st=%d", pname[prim], with_cancel, with_joiner,
                  (int)obs_state);
    OK(ABT_thread_free(&A));
    OK(ABT_thread_free(&B));
    if (to_kind)
        OK(ABT_thread_free(&C));
    OK(ABT_pool_free(&scratch));
    h_finalize();
    abtmc_check(abtmc_ledger_live() == 0, "leak", "%ld live allocations",
                abtmc_ledger_live());
}

static const char *cfg_name(int i) { (void)i; return "one stream: primitive x cancel x joiner"; }
static int cfg_quick(int i) { (void)i; return 1; }

int main(int argc, char **argv)
{
    static abtmc_driver d = { "c11_cancel", "C11", 1, cfg_name, scenario, cfg_quick };
    return abtmc_main(argc, argv, &d);
}
