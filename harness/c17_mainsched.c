/* c17_mainsched.c -- C17c: replacing a main scheduler keeps the stream and the
 * calling ULT running under the new scheduler (kind I).
 *
 * where = ES1 : a ULT C running on the secondary stream ES1 calls
 *               ABT_xstream_set_main_sched[_basic](ES1, ...) while 0-2 units
 *               sit in the old main pool and 0-2 units sit in the pool of the
 *               new scheduler, and another thread (external thread X) pushes
 *               one more unit into the new (or the user-owned old) pool.
 * where = ES0 : the primary ULT replaces the main scheduler of the primary
 *               stream; X pushes a unit into the new pool.
 * where = TERM: the primary ULT joins ES1, replaces the main scheduler of the
 *               terminated stream (X pushing into the new pool concurrently)
 *               and revives it.
 *
 * Documented contract used (src/stream.c): the caller is a ULT; on a running
 * stream the caller runs on that stream's main scheduler and becomes
 * associated with the first pool of the new scheduler; work units left in
 * pools of the old scheduler are the user's responsibility (the driver moves
 * leftovers of a user-owned old pool into the new pool; it never leaves units
 * in an automatic old pool); an automatic old scheduler is freed.
 *
 * Oracle: the call returns ABT_SUCCESS; afterwards ABT_xstream_get_main_sched
 * / _get_main_pools report the new scheduler, the caller still runs on the
 * same stream, is associated with the new first pool and survives a yield
 * (the new scheduler picks it up); every unit runs exactly once and can be
 * joined (a lost unit = deadlock); the stream stays RUNNING and can be joined
 * and freed; after ABT_finalize the ledger is empty (old automatic scheduler
 * freed exactly once: a double free is a bad_free, a leak is "leak"). */
#include "abti.h"
#include "common.h"
#include "c17_asan.h"

enum { W_ES1, W_ES0, W_TERM, W_LIFE };
enum { API_SCHED_AUTO, API_SCHED_USER, API_BASIC, API_BASIC_AUTOPOOL, API_NULL };
enum { PUSH_NONE, PUSH_NEW, PUSH_OLD, PUSH_MAIN };

typedef struct {
    const char *name;
    int quick;
    int where, api;
    int old_user_pool; /* ES1 created with a user-owned pool PA */
    int n_old, n_new;  /* units in the old / new pool at the time of the call
                        * (W_LIFE: n_old = number of join/revive rounds) */
    int pusher;
    int shared; /* a third stream ES2 also serves the new pool PB */
} cfg_t;

static const cfg_t cfgs[] = {
    /* quick tier, cheapest first (a deadline cuts the tail, not the head) */
    { "ES0 set_main_sched_basic(auto pool)", 1, W_ES0, API_BASIC_AUTOPOOL, 0, 0,
      0, PUSH_NONE },
    { "ES0 set_main_sched(auto sched,PB) new:1 X->new", 1, W_ES0,
      API_SCHED_AUTO, 0, 0, 1, PUSH_NEW },
    { "ES1 set_main_sched(NULL) default old sched, no units", 1, W_ES1,
      API_NULL, 0, 0, 0, PUSH_NONE },
    { "TERM join; set_main_sched_basic(PB) old user pool; revive", 1, W_TERM,
      API_BASIC, 1, 0, 1, PUSH_NONE },
    { "TERM join; set_main_sched(user sched,PB) X->new; revive", 1, W_TERM,
      API_SCHED_USER, 0, 0, 0, PUSH_NEW },
    { "ES1 set_main_sched(auto sched,PB), PB also served by ES2", 1, W_ES1,
      API_SCHED_AUTO, 0, 0, 0, PUSH_NONE, 1 },
    { "ES1 set_main_sched_basic(PB) old:1 new:0 X->old", 1, W_ES1, API_BASIC, 1,
      1, 0, PUSH_OLD },
    /* thorough */
    { "ES1 set_main_sched(auto sched,PB) old:1 new:1 X->new", 0, W_ES1,
      API_SCHED_AUTO, 1, 1, 1, PUSH_NEW },
    { "LIFE join; revive; unit; free  X->main pool", 0, W_LIFE, API_NULL, 0, 1,
      0, PUSH_MAIN, 0 },
    { "ES1 set_main_sched(user sched,PB) old:2 new:2 X->new", 0, W_ES1,
      API_SCHED_USER, 1, 2, 2, PUSH_NEW },
    { "ES1 set_main_sched(auto sched,PB) old:2 new:1 X->old", 0, W_ES1,
      API_SCHED_AUTO, 1, 2, 1, PUSH_OLD },
    { "ES1 set_main_sched_basic(auto pool) default old sched", 0, W_ES1,
      API_BASIC_AUTOPOOL, 0, 0, 0, PUSH_NONE },
    { "ES1 set_main_sched_basic(PB) default old sched new:2 X->new", 0, W_ES1,
      API_BASIC, 0, 0, 2, PUSH_NEW },
    { "ES0 set_main_sched_basic(PB) new:2 X->new", 0, W_ES0, API_BASIC, 0, 0, 2,
      PUSH_NEW },
    { "ES0 set_main_sched(NULL)", 0, W_ES0, API_NULL, 0, 0, 0, PUSH_NONE },
    { "TERM join; set_main_sched(auto sched,PB) new:2 X->new; revive", 0,
      W_TERM, API_SCHED_AUTO, 0, 0, 2, PUSH_NEW },
    { "TERM join; set_main_sched(NULL); revive", 0, W_TERM, API_NULL, 0, 0, 0,
      PUSH_NONE },
    { "LIFE join; revive; unit; join; revive; unit; free  X->main pool", 0,
      W_LIFE, API_NULL, 0, 2, 0, PUSH_MAIN, 0 },
};

static const cfg_t *C;
static ABT_xstream es1 = ABT_XSTREAM_NULL, es2 = ABT_XSTREAM_NULL, target;
static ABT_pool PA = ABT_POOL_NULL, PB = ABT_POOL_NULL;
static ABT_pool life_pool = ABT_POOL_NULL; /* W_LIFE: ES1's own main pool */
static ABT_sched new_sched = ABT_SCHED_NULL, old_sched = ABT_SCHED_NULL;

#define MAXU 8
static ABT_thread unit[MAXU];
static int unit_ran[MAXU];
static int nunits;
static char order[64];
static int norder;

static void event(char c)
{
    int i = abtmc_fetch_add(&norder, 1);
    if (i < (int)sizeof(order) - 1)
        order[i] = c;
}

typedef struct { int idx; char tag; } uarg_t;
static uarg_t uargs[MAXU];

static void unit_fn(void *arg)
{
    uarg_t *u = (uarg_t *)arg;
    unit_ran[u->idx]++;
    event(u->tag);
}

/* create work unit number nunits (alternating ULT / tasklet) in pool */
static void make_unit(ABT_pool pool, char tag)
{
    int i = nunits++;
    uargs[i].idx = i;
    uargs[i].tag = tag;
    if (i % 2 == 0)
        OK(ABT_thread_create(pool, unit_fn, &uargs[i], ABT_THREAD_ATTR_NULL,
                             &unit[i]));
    else
        OK(ABT_task_create(pool, unit_fn, &uargs[i], &unit[i]));
}

/* X's unit has a fixed slot so that it does not race on nunits */
#define XSLOT (MAXU - 1)
static void pusher_body(void *arg)
{
    (void)arg;
    ABT_pool pool = (C->pusher == PUSH_OLD)
                        ? PA
                        : (C->pusher == PUSH_MAIN ? life_pool : PB);
    uargs[XSLOT].idx = XSLOT;
    uargs[XSLOT].tag = 'x';
    OK(ABT_thread_create(pool, unit_fn, &uargs[XSLOT], ABT_THREAD_ATTR_NULL,
                         &unit[XSLOT]));
    event('p');
}

static void make_new_sched(void)
{
    if (C->api == API_SCHED_AUTO || C->api == API_SCHED_USER) {
        ABT_sched_config cf;
        OK(ABT_sched_config_create(&cf, ABT_sched_config_automatic,
                                   C->api == API_SCHED_AUTO ? 1 : 0,
                                   ABT_sched_config_var_end));
        OK(ABT_sched_create_basic(ABT_SCHED_BASIC, 1, &PB, cf, &new_sched));
        OK(ABT_sched_config_free(&cf));
    }
}

static int do_replace(ABT_xstream xs)
{
    switch (C->api) {
        case API_SCHED_AUTO:
        case API_SCHED_USER:
            return ABT_xstream_set_main_sched(xs, new_sched);
        case API_BASIC:
            return ABT_xstream_set_main_sched_basic(xs, ABT_SCHED_BASIC, 1,
                                                    &PB);
        case API_BASIC_AUTOPOOL:
            return ABT_xstream_set_main_sched_basic(xs, ABT_SCHED_DEFAULT, 0,
                                                    NULL);
        default:
            return ABT_xstream_set_main_sched(xs, ABT_SCHED_NULL);
    }
}

/* what ABT_xstream_get_main_sched / _pools must say after the replacement */
static ABT_pool check_new_sched(ABT_xstream xs, const char *when)
{
    ABT_sched s = ABT_SCHED_NULL;
    OK(ABT_xstream_get_main_sched(xs, &s));
    abtmc_check(s != ABT_SCHED_NULL && s != old_sched, "main_sched_not_replaced",
                "%s: ABT_xstream_get_main_sched still returns the old "
                "scheduler",
                when);
    if (new_sched != ABT_SCHED_NULL)
        abtmc_check(s == new_sched, "main_sched_not_replaced",
                    "%s: ABT_xstream_get_main_sched does not return the "
                    "scheduler that was set",
                    when);
    ABT_pool p = ABT_POOL_NULL;
    OK(ABT_xstream_get_main_pools(xs, 1, &p));
    if (PB != ABT_POOL_NULL)
        abtmc_check(p == PB, "main_sched_not_replaced",
                    "%s: first main pool is not the new scheduler's pool",
                    when);
    abtmc_check(p != ABT_POOL_NULL, "main_sched_not_replaced",
                "%s: no main pool", when);
    return p;
}

/* the part executed by the ULT that replaces the scheduler of its own,
 * running stream (C on ES1, or the primary ULT on ES0) */
static void replace_own(ABT_xstream xs)
{
    int rank0 = -1, rank1 = -1;
    OK(ABT_xstream_self_rank(&rank0));
    for (int i = 0; i < C->n_old; i++)
        make_unit(PA, 'o');
    for (int i = 0; i < C->n_new; i++)
        make_unit(PB, 'n');
    int ret = do_replace(xs);
    event('C');
    abtmc_check(ret == ABT_SUCCESS, "set_main_sched_failed",
                "set_main_sched on the caller's own running stream returned %d",
                ret);
    ABT_pool np = check_new_sched(xs, "after the call");
    ABT_xstream self;
    OK(ABT_xstream_self(&self));
    OK(ABT_xstream_self_rank(&rank1));
    /* (with a shared new pool the other stream may legitimately resume it) */
    abtmc_check(C->shared || (self == xs && rank1 == rank0), "caller_moved",
                "the caller runs on another stream after the call (rank %d -> "
                "%d)",
                rank0, rank1);
    if (C->shared)
        event((char)('0' + rank1));
    ABT_pool lp = ABT_POOL_NULL;
    OK(ABT_self_get_last_pool(&lp));
    abtmc_check(lp == np, "caller_pool",
                "the caller is not associated with the first pool of the new "
                "scheduler");
    /* the new scheduler must pick the caller up again */
    OK(ABT_thread_yield());
    event('Y');
    OK(ABT_xstream_self(&self));
    abtmc_check(C->shared || self == xs, "caller_moved",
                "the caller resumed on another stream after a yield");
    check_new_sched(xs, "after a yield");
    if (C->api == API_BASIC_AUTOPOOL || C->api == API_NULL) {
        /* new pool only known now: a unit pushed there must run */
        make_unit(np, 'l');
    }
}

static void caller_es1(void *arg)
{
    (void)arg;
    replace_own(es1);
}

/* user's responsibility: move leftovers of the user-owned old pool */
static void move_leftovers(ABT_pool to)
{
    if (PA == ABT_POOL_NULL || to == PA)
        return;
    for (;;) {
        ABT_thread t = ABT_THREAD_NULL;
        OK(ABT_pool_pop_thread(PA, &t));
        if (t == ABT_THREAD_NULL)
            break;
        event('m');
        OK(ABT_pool_push_thread(to, t));
    }
}

static void nop_fn(void *arg) { (void)arg; }
static void settle(ABT_xstream x)
{
    ABT_task t;
    OK(ABT_task_create(h_main_pool(x), nop_fn, NULL, &t));
    OK(ABT_task_free(&t));
}

static void scenario(int cfg)
{
    C = &cfgs[cfg];
    h_init();
    for (int i = 0; i < MAXU; i++)
        unit[i] = ABT_THREAD_NULL;
    ABT_xstream es0 = h_self_xstream();
    int need_pb = (C->api == API_SCHED_AUTO || C->api == API_SCHED_USER ||
                   C->api == API_BASIC);
    /* the pool of a scheduler that replaces the PRIMARY stream's scheduler
     * stays associated with the primary ULT until ABT_finalize: automatic */
    if (need_pb)
        OK(ABT_pool_create_basic(ABT_POOL_FIFO, ABT_POOL_ACCESS_MPMC,
                                 C->where == W_ES0 ? ABT_TRUE : ABT_FALSE,
                                 &PB));
    if (C->where != W_ES0) {
        if (C->old_user_pool) {
            OK(ABT_pool_create_basic(ABT_POOL_FIFO, ABT_POOL_ACCESS_MPMC,
                                     ABT_FALSE, &PA));
            OK(ABT_xstream_create_basic(ABT_SCHED_BASIC, 1, &PA,
                                        ABT_SCHED_CONFIG_NULL, &es1));
        } else {
            OK(ABT_xstream_create(ABT_SCHED_NULL, &es1));
        }
        settle(es1);
        life_pool = h_main_pool(es1);
        if (C->shared) {
            OK(ABT_xstream_create_basic(ABT_SCHED_BASIC, 1, &PB,
                                        ABT_SCHED_CONFIG_NULL, &es2));
            settle(es2);
        }
    }
    target = (C->where == W_ES0) ? es0 : es1;
    OK(ABT_xstream_get_main_sched(target, &old_sched));
    make_new_sched();

    if (C->where == W_ES1 && new_sched != ABT_SCHED_NULL) {
        /* not the caller's stream and running: refused, nothing changes */
        int ret = ABT_xstream_set_main_sched(es1, new_sched);
        abtmc_check(ret == ABT_ERR_XSTREAM_STATE, "foreign_running_stream",
                    "set_main_sched on another running stream returned %d",
                    ret);
        ABT_sched s;
        OK(ABT_xstream_get_main_sched(es1, &s));
        abtmc_check(s == old_sched, "foreign_running_stream",
                    "a refused set_main_sched changed the main scheduler");
    }

    int xt = -1;
    ABT_pool np = ABT_POOL_NULL;
    abtmc_window_begin();
    if (C->where == W_ES1) {
        ABT_thread c;
        OK(ABT_thread_create(h_main_pool(es1), caller_es1, NULL,
                             ABT_THREAD_ATTR_NULL, &c));
        if (C->pusher != PUSH_NONE)
            xt = abtmc_thread_create(pusher_body, NULL);
        OK(ABT_thread_free(&c));
        if (xt >= 0)
            abtmc_thread_join(xt);
        np = check_new_sched(es1, "after the caller finished");
        move_leftovers(np);
    } else if (C->where == W_ES0) {
        if (C->pusher != PUSH_NONE)
            xt = abtmc_thread_create(pusher_body, NULL);
        replace_own(es0);
        if (xt >= 0)
            abtmc_thread_join(xt);
        np = check_new_sched(es0, "at the end");
    } else if (C->where == W_LIFE) {
        /* join -> revive -> join -> revive cycles with work arriving from X at
         * any time; no scheduler replacement */
        if (C->pusher != PUSH_NONE)
            xt = abtmc_thread_create(pusher_body, NULL);
        for (int round = 0; round < C->n_old; round++) {
            OK(ABT_xstream_join(es1));
            event('J');
            ABT_xstream_state st;
            OK(ABT_xstream_get_state(es1, &st));
            abtmc_check(st == ABT_XSTREAM_STATE_TERMINATED, "xstream_state",
                        "joined stream has state %d", (int)st);
            if (round == 1)
                abtmc_check(unit_ran[0] == 1, "unit_not_run",
                            "join returned although the unit pushed after the "
                            "revive did not run (%d)",
                            unit_ran[0]);
            c17_unpoison_main_sched_stack(es1); /* ASan only */
            OK(ABT_xstream_revive(es1));
            event('R');
            OK(ABT_xstream_get_state(es1, &st));
            abtmc_check(st == ABT_XSTREAM_STATE_RUNNING, "xstream_state",
                        "revived stream has state %d", (int)st);
            make_unit(life_pool, 'l');
        }
        if (xt >= 0)
            abtmc_thread_join(xt);
        np = life_pool;
    } else {
        /* terminated stream */
        OK(ABT_xstream_join(es1));
        if (C->pusher != PUSH_NONE)
            xt = abtmc_thread_create(pusher_body, NULL);
        for (int i = 0; i < C->n_new; i++)
            make_unit(PB, 'n');
        int ret = do_replace(es1);
        event('C');
        abtmc_check(ret == ABT_SUCCESS, "set_main_sched_failed",
                    "set_main_sched on a terminated stream returned %d", ret);
        np = check_new_sched(es1, "terminated stream");
        ABT_xstream_state st;
        OK(ABT_xstream_get_state(es1, &st));
        abtmc_check(st == ABT_XSTREAM_STATE_TERMINATED, "xstream_state",
                    "terminated stream changed state to %d", (int)st);
        c17_unpoison_main_sched_stack(es1); /* ASan only, see c17_asan.h */
        OK(ABT_xstream_revive(es1));
        event('R');
        make_unit(np, 'l'); /* pushed after the revive */
        if (xt >= 0)
            abtmc_thread_join(xt);
        check_new_sched(es1, "after revive");
        move_leftovers(np);
    }
    /* every unit can be joined: it ran, under the new scheduler if it was
     * still queued */
    for (int i = 0; i < MAXU; i++)
        if (unit[i] != ABT_THREAD_NULL)
            OK(ABT_thread_free(&unit[i]));
    abtmc_window_end();

    int expect_units = nunits + (C->pusher != PUSH_NONE ? 1 : 0);
    int ran = 0;
    for (int i = 0; i < MAXU; i++) {
        int created = (i < nunits) || (i == XSLOT && C->pusher != PUSH_NONE);
        abtmc_check(unit_ran[i] == (created ? 1 : 0), "unit_exactly_once",
                    "unit %d ran %d times", i, unit_ran[i]);
        ran += unit_ran[i];
    }
    abtmc_check(ran == expect_units, "unit_exactly_once", "%d of %d units ran",
                ran, expect_units);
    if (C->where != W_ES0) {
        ABT_xstream_state st;
        OK(ABT_xstream_get_state(es1, &st));
        abtmc_check(st == ABT_XSTREAM_STATE_RUNNING, "xstream_state",
                    "the stream is not running after the replacement (%d)",
                    (int)st);
    }
    order[norder < (int)sizeof(order) - 1 ? norder : (int)sizeof(order) - 1] = 0;
    abtmc_observe("%s", order);

    if (C->where != W_ES0) {
        OK(ABT_xstream_join(es1));
        OK(ABT_xstream_free(&es1));
        if (C->shared)
            OK(ABT_xstream_free(&es2));
        if (C->api == API_SCHED_USER)
            OK(ABT_sched_free(&new_sched));
        if (PA != ABT_POOL_NULL)
            OK(ABT_pool_free(&PA));
        if (PB != ABT_POOL_NULL)
            OK(ABT_pool_free(&PB));
    }
    h_finalize();
    /* a user-owned scheduler of the primary stream outlives ABT_finalize's
     * automatic clean-up only if it is not automatic; none of the ES0 configs
     * uses one */
    abtmc_check(abtmc_ledger_live() == 0, "leak",
                "%ld resources still allocated after ABT_finalize (old or new "
                "scheduler / pool not freed)",
                abtmc_ledger_live());
}

static const char *cfg_name(int i) { return cfgs[i].name; }
static int cfg_quick(int i) { return cfgs[i].quick; }

int main(int argc, char **argv)
{
    static abtmc_driver d = { "c17_mainsched", "C17", ARRAY_LEN(cfgs), cfg_name,
                              scenario, cfg_quick };
    return abtmc_main(argc, argv, &d);
}
