/* c20_affinity.c -- C20c: ABTD_affinity_list_create/free against an
 * independent parser of the grammar documented at the top of
 * src/arch/abtd_affinity.c.
 *
 * kind S (sequential, one controlled thread, no ABT_init needed).  One
 * execution = one shard (three abtmc_choose(10) -> 1000 shards) that loops over
 * its share of the input strings.  For every string: accepted iff the
 * reference accepts, identical expansion, ledger balance 0 after free /
 * after a rejection; in the mc-asan flavour ASan (reads past the NUL, heap
 * overflow of the id arrays) and UBSan (signed overflow) are oracles too.
 *
 * Reference = tokenizer + recursive descent over tokens (the implementation
 * has no tokenizer: it scans characters on demand):
 *   blanks (' ' \t \r \n) separate tokens and are otherwise ignored;
 *   <integer> = any number of '+'/'-' immediately followed by >=1 digits;
 *   symbols { } : ,
 *   <list> = <interval> {"," <interval>}            (then end of string)
 *   <interval> = <es-id-list> [":" <num> [":" <stride>]]
 *   <es-id-list> = <id> | "{" <id-interval> {"," <id-interval>} "}"
 *   <id-interval> = <id> [":" <num> [":" <stride>]]
 *   <num> > 0; <id>, <stride> any integer; defaults num = stride = 1.
 * Expansion as documented: ids id, id+stride, ..., id+stride*(num-1); id
 * lists L, L+stride, ..., L+stride*(num-1) element-wise.
 *
 * Implementation limit taken over as an assumption (not in the grammar):
 * <num> >= 1048576 is rejected ("If the value is too big, the input should
 * be wrong", MAX_NUM_ELEMS).
 * Integer tokens whose magnitude exceeds INT_MAX cannot be represented by
 * the int ids: for them the only requirement is "rejected, or accepted with
 * the exact expansion" (plus the sanitizer oracles).  Expansions that leave
 * the int range (id + stride*k) are not compared value by value.
 */
#include "abti.h"
#include "common.h"
#include "c20_ref.h"

typedef struct {
    const char *name;
    int quick;
    int kind; /* 0 all strings, 1 corpus mutations, 2 long tokens */
    int maxlen;
} cfg_t;

static const cfg_t cfgs[] = {
    { "all strings len<=6", 1, 0, 6 },
    { "valid corpus + single-character mutations", 1, 1, 0 },
    { "long integer tokens in every numeric position", 1, 2, 0 },
    { "all strings len<=7", 0, 0, 7 },
};

static const char ALPHA[] = "0129-+ {}:,";
#define NALPHA 11
#define NSHARD 1000

/* ------------------------------------------------------------ reference */

enum { T_INT, T_SYM, T_END, T_BAD };
typedef struct {
    int kind;
    char sym;
    int64_t val; /* exact when !huge */
    int big;     /* magnitude > INT_MAX */
    int huge;    /* magnitude does not even fit int64 */
} tok_t;

#define MAXTOK 256
static tok_t toks[MAXTOK];
static int ntok, tpos;

static int tokenize(const char *s)
{
    ntok = 0;
    for (;;) {
        while (c20_isblank(*s))
            s++;
        if (ntok >= MAXTOK - 1)
            return -1;
        tok_t *t = &toks[ntok++];
        memset(t, 0, sizeof(*t));
        if (*s == 0) {
            t->kind = T_END;
            return 0;
        }
        if (*s == '{' || *s == '}' || *s == ':' || *s == ',') {
            t->kind = T_SYM;
            t->sym = *s++;
            continue;
        }
        if (*s == '+' || *s == '-' || c20_isdigit(*s)) {
            int neg = 0;
            while (*s == '+' || *s == '-') {
                if (*s == '-')
                    neg = !neg;
                s++;
            }
            if (!c20_isdigit(*s)) {
                t->kind = T_BAD; /* sign without digits (or blank after it) */
                return 0;
            }
            while (*s == '0' && c20_isdigit(s[1]))
                s++;
            const char *d = s;
            while (c20_isdigit(*s))
                s++;
            int nd = (int)(s - d);
            t->kind = T_INT;
            if (nd > 18) {
                t->huge = t->big = 1;
                t->val = neg ? INT64_MIN : INT64_MAX;
            } else {
                int64_t v = 0;
                for (int i = 0; i < nd; i++)
                    v = v * 10 + (d[i] - '0');
                t->big = v > INT_MAX;
                t->val = neg ? -v : v;
            }
            continue;
        }
        t->kind = T_BAD;
        return 0;
    }
}

#define MAX_REF_NUM (1024 * 1024) /* assumption, see the header comment */

/* parsed (unexpanded) form */
typedef struct {
    int64_t id, num, stride;
} ival_t;
typedef struct {
    int first_ival, n_ival; /* into ivals[] */
    int64_t num, stride;
} interval_t;
#define MAXIV 128
static ival_t ivals[MAXIV];
static interval_t intervals[MAXIV];
static int n_ivals, n_intervals;
static int n_partial; /* intervals touched, including a partially parsed one */
static int ref_big, ref_limit;

static int is_sym(char c)
{
    return toks[tpos].kind == T_SYM && toks[tpos].sym == c;
}
static int take_sym(char c)
{
    if (is_sym(c)) {
        tpos++;
        return 1;
    }
    return 0;
}
static int take_int(int64_t *v)
{
    if (toks[tpos].kind != T_INT)
        return 0;
    if (toks[tpos].big)
        ref_big = 1;
    *v = toks[tpos].val;
    tpos++;
    return 1;
}
/* [":" <num> [":" <stride>]]; returns 0 on syntax error */
static int opt_num_stride(int64_t *num, int64_t *stride)
{
    *num = 1;
    *stride = 1;
    if (!take_sym(':'))
        return 1;
    if (!take_int(num) || *num <= 0)
        return 0;
    if (*num >= MAX_REF_NUM) {
        ref_limit = 1;
        *num = 1; /* rejected before anything is allocated for it */
        return 0;
    }
    if (!take_sym(':'))
        return 1;
    return take_int(stride);
}

static int ref_parse(const char *s)
{
    n_ivals = n_intervals = n_partial = 0;
    ref_big = ref_limit = 0;
    tpos = 0;
    if (tokenize(s) != 0)
        return 0;
    for (;;) {
        if (n_intervals >= MAXIV)
            return 0;
        interval_t *I = &intervals[n_intervals];
        I->first_ival = n_ivals;
        I->n_ival = 0;
        I->num = I->stride = 1;
        n_partial = n_intervals + 1; /* visible to the size estimate */
        int64_t v;
        if (take_int(&v)) {
            if (n_ivals >= MAXIV)
                return 0;
            ivals[n_ivals++] = (ival_t){ v, 1, 1 };
            I->n_ival = 1;
        } else if (take_sym('{')) {
            for (;;) {
                if (n_ivals >= MAXIV)
                    return 0;
                ival_t *iv = &ivals[n_ivals];
                if (!take_int(&iv->id))
                    return 0;
                iv->num = iv->stride = 1;
                n_ivals++;
                I->n_ival++;
                if (!opt_num_stride(&iv->num, &iv->stride))
                    return 0;
                if (take_sym(','))
                    continue;
                if (!take_sym('}'))
                    return 0;
                break;
            }
        } else {
            return 0;
        }
        if (!opt_num_stride(&I->num, &I->stride))
            return 0;
        n_intervals++;
        if (take_sym(','))
            continue;
        return toks[tpos].kind == T_END;
    }
}

/* ---------------------------------------------------------------- oracle */

static long long n_cases, n_accept, n_reject, n_bigtok, n_limit, n_range,
    n_skipped_large, n_ids, n_calls;
static int max_lists_seen;
static char *tailbuf;
#define TAILSZ 256

#define MAX_LISTS_RUN 1200          /* engine ledger capacity, shard time */
#define MAX_INTS_RUN (4 * 1024 * 1024)

static __int128 i128(int64_t v) { return (__int128)v; }

static void check_one(const char *s0)
{
    size_t l = strlen(s0);
    if (l + 1 > TAILSZ)
        return;
    char *s = tailbuf + TAILSZ - (l + 1);
    memcpy(s, s0, l + 1);
    n_cases++;

    int racc = ref_parse(s);
    /* size of the expansion; a string that is rejected late (e.g.
     * "0:9999,") has its leading intervals expanded before the error is
     * found, so the estimate covers every interval the reference touched */
    long long tot_lists = 0, tot_ints = 0;
    for (int i = 0; i < n_partial; i++) {
        long long per = 0;
        for (int j = 0; j < intervals[i].n_ival; j++) {
            int64_t nn = ivals[intervals[i].first_ival + j].num;
            per += nn > 0 ? nn : 1;
        }
        int64_t ni = intervals[i].num > 0 ? intervals[i].num : 1;
        tot_lists += ni;
        tot_ints += per * ni;
    }
    if (tot_lists > MAX_LISTS_RUN || tot_ints > MAX_INTS_RUN) {
        /* would exhaust the engine's allocation ledger (or memory):
         * counted, not run */
        n_skipped_large++;
        return;
    }
    if (racc) {
        /* exact figures for the comparison below */
        tot_lists = tot_ints = 0;
        for (int i = 0; i < n_intervals; i++)
            tot_lists += intervals[i].num;
    }
    if (ref_big)
        n_bigtok++;
    if (ref_limit)
        n_limit++;

    long live0 = abtmc_ledger_live();
    ABTD_affinity_list *p_list = NULL;
    abtmc_tracef("ABTD_affinity_list_create(\"%s\")", s0); /* --trace only */
    int ret = ABTD_affinity_list_create(s, &p_list);
    n_calls++;
    if (ret != ABT_SUCCESS) {
        n_reject++;
        abtmc_check(abtmc_ledger_live() == live0, "affinity_leak_on_reject",
                    "ABTD_affinity_list_create(\"%s\") failed with %d and left "
                    "%ld allocations", s0, ret, abtmc_ledger_live() - live0);
        if (ret == ABT_ERR_MEM)
            return; /* resource exhaustion is not a verdict on the syntax */
        abtmc_check(!racc || ref_big, "affinity_rejects_valid",
                    "ABTD_affinity_list_create(\"%s\") returned %d but the "
                    "string matches the documented grammar", s0, ret);
        return;
    }
    n_accept++;
    if (!racc) {
        /* accepted although the reference rejects */
        if (ref_big)
            abtmc_check_fail("affinity_token_overflow",
                             "ABTD_affinity_list_create(\"%s\") accepted a "
                             "string the reference rejects; it contains an "
                             "integer token beyond INT_MAX (wrapped value "
                             "used: first id %d)", s0,
                             (p_list->num && p_list->p_id_lists[0]->num)
                                 ? p_list->p_id_lists[0]->ids[0] : 0);
        abtmc_check_fail("affinity_accepts_invalid",
                         "ABTD_affinity_list_create(\"%s\") succeeded but the "
                         "string does not match the documented grammar%s", s0,
                         ref_limit ? " (num >= 1048576)" : "");
    }
    /* compare the expansion */
    const char *key = ref_big ? "affinity_token_overflow" : "affinity_expansion";
    abtmc_check(p_list != NULL, key, "\"%s\": NULL list on success", s0);
    abtmc_check((long long)p_list->num == tot_lists, key,
                "\"%s\": %u id lists, expected %lld", s0, p_list->num,
                tot_lists);
    uint32_t li = 0;
    int range = 0;
    for (int i = 0; i < n_intervals; i++) {
        const interval_t *I = &intervals[i];
        for (int64_t r = 0; r < I->num; r++, li++) {
            const ABTD_affinity_id_list *p = p_list->p_id_lists[li];
            abtmc_check(p != NULL, key, "\"%s\": id list %u is NULL", s0, li);
            uint32_t k = 0;
            for (int j = 0; j < I->n_ival; j++) {
                const ival_t *iv = &ivals[I->first_ival + j];
                abtmc_check((long long)p->num >= (long long)k + iv->num, key,
                            "\"%s\": id list %u has %u ids, expected more", s0,
                            li, p->num);
                for (int64_t q = 0; q < iv->num; q++, k++) {
                    __int128 want = i128(iv->id) + i128(iv->stride) * q +
                                    i128(I->stride) * r;
                    if (want > INT_MAX || want < INT_MIN) {
                        range = 1; /* not representable: not compared */
                        continue;
                    }
                    if (p->ids[k] != (int)want)
                        abtmc_check_fail(key,
                                         "\"%s\": id list %u element %u is %d, "
                                         "expected %d", s0, li, k, p->ids[k],
                                         (int)want);
                }
            }
            abtmc_check(p->num == k, key,
                        "\"%s\": id list %u has %u ids, expected %u", s0, li,
                        p->num, k);
            n_ids += k;
        }
    }
    if (range)
        n_range++;
    if ((int)tot_lists > max_lists_seen)
        max_lists_seen = (int)tot_lists;
    ABTD_affinity_list_free(p_list);
    abtmc_check(abtmc_ledger_live() == live0, "affinity_leak_on_free",
                "\"%s\": %ld allocations left after ABTD_affinity_list_free",
                s0, abtmc_ledger_live() - live0);
}

/* ------------------------------------------------------------- corpora */

/* the examples of the header comment of abtd_affinity.c and the legal
 * strings of the disabled self test of abtd_affinity_parser.c */
static const char *const VALID[] = {
    "{0},{1},{2},{3},{4},{5},{6},{7},{8},{9},{10},{11}",
    "0,1,2,3,4,5,6,7,8,9,10,11",
    "{0}:12:1",
    "{0}:12",
    "0:12",
    "{6},{7},{8},{9},{10},{11},{0},{1},{2},{3},{4},{5}",
    "{6}:6:1,{0}:6:1",
    "6:6,0:6",
    "6:12",
    "{0},{4},{8}",
    "{0}:3:4",
    "0:3:4",
    "0,4,8,1,5,9,2,6,10,3,7,11",
    "{0}:3:4,{1}:3:4,{2}:3:4,{3}:3:4",
    "0:3:4,1:3:4,2:3:4,3:3:4",
    "{0,1,2,3},{4,5,6,7},{8,9,10,11}",
    "{0,1,2,3}:3:4",
    "{0:4:1}:3:4",
    "{0:4}:3:4",
    "{0,6},{1,7},{2,8},{3,9},{4,10},{5,11}",
    "{0,6}:6:1",
    "{2,3,4,5,6,7,8,9,10,11}",
    "{2:10:1}",
    "{2:10}",
    "+-+-1",
    "-9:1:-9",
    "{-9:1:-9}",
    "1,2,{1:2}",
    " 1 :  +2 , { -1 : \r 2\n:2}\n",
    "{1:2:3}:3:-2,1",
    "{-2:3:-2}:2:-4",
    "{3:4:-1}",
};
static const char MUT_ALPHA[] = "019-+ {}:,\tx";

/* the documented equalities of the examples: pairs that must expand alike
 * are implied by comparing each with the reference expansion */

static void corpus_mutations(int shard)
{
    int k = 0;
    char buf[TAILSZ];
    int nm = (int)strlen(MUT_ALPHA);
    for (int v = 0; v < ARRAY_LEN(VALID); v++) {
        const char *b = VALID[v];
        int n = (int)strlen(b);
        if (k++ % NSHARD == shard) {
            check_one(b);
            /* a documented-valid string must be accepted */
            abtmc_check(ref_parse(b), "harness_error",
                        "reference rejects the documented example \"%s\"", b);
        }
        for (int pos = 0; pos <= n; pos++) {
            /* delete */
            if (pos < n && k++ % NSHARD == shard) {
                memcpy(buf, b, (size_t)pos);
                strcpy(buf + pos, b + pos + 1);
                check_one(buf);
            }
            for (int c = 0; c < nm; c++) {
                /* insert */
                if (k++ % NSHARD == shard) {
                    memcpy(buf, b, (size_t)pos);
                    buf[pos] = MUT_ALPHA[c];
                    strcpy(buf + pos + 1, b + pos);
                    check_one(buf);
                }
                /* replace */
                if (pos < n && k++ % NSHARD == shard) {
                    strcpy(buf, b);
                    buf[pos] = MUT_ALPHA[c];
                    check_one(buf);
                }
            }
            /* truncate */
            if (k++ % NSHARD == shard) {
                memcpy(buf, b, (size_t)pos);
                buf[pos] = 0;
                check_one(buf);
            }
        }
    }
}

static const char *const TEMPLATES[] = {
    "%s",        "{%s}",       "%s:2",      "%s:2:3",       "1:%s",
    "1:2:%s",    "{%s:2:1}",   "{1:%s}",    "{1:2:%s}",     "{1:2:3}:%s",
    "{1}:2:%s",  "0,%s",       "{0,%s}",    " %s ",         "{1,2}:2:%s,3",
    "{%s,%s}",
};
static const char *const LONGTOK[] = {
    "2147483646",   "2147483647",   "2147483648",    "2147483649",
    "4294967295",   "4294967296",   "4294967297",    "4294967298",
    "8589934593",   "9999999999",   "99999999999",   "999999999999",
    "21474836470",  "21474836481",  "18446744073709551617",
    "9223372036854775808", "340282366920938463463374607431768211457",
    "1048574",      "1048575",      "1048576",       "1048577",
    "00000000000000000002", "0000000000001048576", "1000000000000",
    "3000000000",   "6442450945",   "12884901889",
};
static const char *const TOKSIGN[] = { "", "-", "+", "--", "-+-" };

static void long_tokens(int shard)
{
    int k = 0;
    char tok[96], buf[TAILSZ];
    for (int t = 0; t < ARRAY_LEN(TEMPLATES); t++)
        for (int n = 0; n < ARRAY_LEN(LONGTOK); n++)
            for (int sg = 0; sg < ARRAY_LEN(TOKSIGN); sg++) {
                if (k++ % NSHARD != shard)
                    continue;
                snprintf(tok, sizeof(tok), "%s%s", TOKSIGN[sg], LONGTOK[n]);
                snprintf(buf, sizeof(buf), TEMPLATES[t], tok, tok);
                check_one(buf);
            }
}

static void scenario(int cfg)
{
    const cfg_t *C = &cfgs[cfg];
    tailbuf = (char *)malloc(TAILSZ);

    abtmc_window_begin();
    int a = abtmc_choose(10, ABTMC_B_FREE);
    int b = abtmc_choose(10, ABTMC_B_FREE);
    int c = abtmc_choose(10, ABTMC_B_FREE);
    abtmc_window_end();
    int shard = (a * 10 + b) * 10 + c;
    long live0 = abtmc_ledger_live();

    if (C->kind == 0) {
        if (shard == 0) {
            /* the strings of length 0, 1 and 2 */
            check_one("");
            for (int i = 0; i < NALPHA; i++) {
                char s[3] = { ALPHA[i], 0, 0 };
                check_one(s);
                for (int j = 0; j < NALPHA; j++) {
                    s[1] = ALPHA[j];
                    check_one(s);
                }
                s[1] = 0;
            }
        }
        for (int tr = shard; tr < NALPHA * NALPHA * NALPHA; tr += NSHARD) {
            int fixed[3] = { tr / (NALPHA * NALPHA), tr / NALPHA % NALPHA,
                             tr % NALPHA };
            for (int len = 3; len <= C->maxlen; len++) {
                c20_enum e;
                c20_enum_start(&e, ALPHA, len, fixed, 3);
                do {
                    check_one(e.str);
                } while (c20_enum_next(&e, 3));
            }
        }
    } else if (C->kind == 1) {
        corpus_mutations(shard);
    } else {
        long_tokens(shard);
    }

    abtmc_check(abtmc_ledger_live() == live0, "affinity_leak_on_free",
                "%ld allocations left at the end of the shard",
                abtmc_ledger_live() - live0);
    abtmc_stat("cases", n_cases);
    abtmc_stat("distinct", n_cases);
    abtmc_stat("ops", n_calls);
    abtmc_stat("nontrivial", n_accept);
    abtmc_stat("aff_strings", n_cases);
    abtmc_stat("aff_accepted", n_accept);
    abtmc_stat("aff_ids_compared", n_ids);
    abtmc_stat("aff_big_token", n_bigtok);
    abtmc_stat("aff_num_limit", n_limit);
    abtmc_stat("aff_range_unspec", n_range);
    abtmc_stat("aff_skipped_large", n_skipped_large);
    /* coarse per-shard outcome: did it see accepted strings / how long the
     * longest expansion was */
    abtmc_observe("accepted=%s maxlists=%s", n_accept ? "yes" : "no",
                  max_lists_seen >= 100 ? ">=100"
                  : max_lists_seen >= 10 ? "10-99"
                  : max_lists_seen >= 2  ? "2-9"
                                         : "<=1");
    free(tailbuf);
}

static const char *cfg_name(int i) { return cfgs[i].name; }
static int cfg_quick(int i) { return cfgs[i].quick; }

int main(int argc, char **argv)
{
    static abtmc_driver d = { "c20_affinity", "C20", ARRAY_LEN(cfgs), cfg_name,
                              scenario, cfg_quick };
    return abtmc_main(argc, argv, &d);
}
