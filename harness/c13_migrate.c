/* c13_migrate.c -- C13: a migration request moves the work unit to the
 * requested pool exactly once, with its callback; U still runs exactly once.
 *
 * Streams and pools.  ES0 (primary) serves A (its main pool) where U starts.
 * ES1 runs a BASIC scheduler over B -- and over C when C is "the second pool
 * of ES1" --; otherwise C is the only pool of ES2's scheduler.
 *
 * U is a ULT (slices separated by ABT_thread_yield / ABT_self_suspend), a
 * tasklet, a ULT made non-migratable, or a main scheduler's ULT.  Requests
 * (ABT_thread_migrate_to_pool/_sched/_xstream, ABT_thread_migrate) are issued
 * by U itself in its first slice, by the primary ULT before U can start, by an
 * external thread X or by a ULT running on ES2, one or two in a row (the two
 * possibly split: the first by the primary ULT, the second by X).  U does
 * not terminate before the requester is done (requests on a terminated unit
 * are undefined).
 *
 * Log (all stamps come from abtmc_step(), one global order):
 *   req[i]   = call stamp, return stamp, return code, set of acceptable pools
 *   slice[k] = start stamp, ABT_self_get_last_pool(), stream rank
 *   bound[k] = a stamp taken before the scheduling decision that precedes
 *              slice k: by the primary ULT before it first lets ES0's
 *              scheduler run (k = 0), by U before it yields, by the resumer
 *              before ABT_thread_resume
 *   cb[j]    = stamp and ABT_thread_get_last_pool(U) inside the callback
 * Oracle: see check_log(). */
#include "abti.h"
#include "common.h"

enum { PA, PB, PC, NPOOLS };
#define M(p) (1 << (p))
enum { UK_ULT, UK_TASK };
enum { RQ_SELF, RQ_PRIMARY, RQ_EXT, RQ_ULT2,
       RQ_PRIM1_EXT /* first request by the primary ULT, the rest by X */ };
enum { API_POOL, API_SCHED, API_XSTREAM, API_ANY };
enum { RS_NONE, RS_PRIMARY, RS_EXT };
enum { K_NORMAL, K_ERRORS };

typedef struct {
    const char *name;
    int quick;
    int kind;
    int unit;
    const char *steps; /* 'y' = ABT_thread_yield, 's' = ABT_self_suspend */
    int requester;
    int nreq;
    struct { int api, target; } rq[2];
    int c_on_es2;
    int resumer;
    int cb_attr; /* callback registered through the attribute */
} cfg_t;

static const cfg_t cfgs[] = {
    /* ---- quick ---- */
    { "ULT: self migrate_to_pool(B), yield", 1, K_NORMAL, UK_ULT, "y", RQ_SELF,
      1, { { API_POOL, PB } }, 0, RS_NONE, 0 },
    { "ULT yields x2; X: migrate_to_pool(B)", 1, K_NORMAL, UK_ULT, "yy", RQ_EXT,
      1, { { API_POOL, PB } }, 0, RS_NONE, 0 },
    { "ULT yields x3; X: migrate_to_pool(B) then (C), C 2nd pool of ES1", 1,
      K_NORMAL, UK_ULT, "yyy", RQ_EXT, 2, { { API_POOL, PB }, { API_POOL, PC } },
      0, RS_NONE, 0 },
    { "ULT suspends, primary resumes; X: migrate_to_xstream(ES1)", 1, K_NORMAL,
      UK_ULT, "s", RQ_EXT, 1, { { API_XSTREAM, PB } }, 0, RS_PRIMARY, 0 },
    { "tasklet; X: migrate_to_sched(sched of ES1)", 1, K_NORMAL, UK_TASK, "",
      RQ_EXT, 1, { { API_SCHED, PB } }, 0, RS_NONE, 0 },
    { "ULT not started; primary: ABT_thread_migrate, ES1 running", 1, K_NORMAL,
      UK_ULT, "y", RQ_PRIMARY, 1, { { API_ANY, PB } }, 0, RS_NONE, 0 },
    { "ULT: self migrate_to_pool(B), suspend, X resumes", 1, K_NORMAL, UK_ULT,
      "s", RQ_SELF, 1, { { API_POOL, PB } }, 0, RS_EXT, 0 },
    { "ULT yields x2; ULT on ES2: migrate_to_pool(B); callback by attribute",
      1, K_NORMAL, UK_ULT, "yy", RQ_ULT2, 1, { { API_POOL, PB } }, 0, RS_NONE,
      1 },
    { "ULT yields x2; primary: migrate_to_pool(B) before the start, then X: "
      "(C)", 1, K_NORMAL, UK_ULT, "yy", RQ_PRIM1_EXT, 2,
      { { API_POOL, PB }, { API_POOL, PC } }, 0, RS_NONE, 0 },
    { "rejected requests: non-migratable, main scheduler, current pool "
      "(sequential)", 1, K_ERRORS, UK_ULT, "y", RQ_PRIMARY, 0, { { 0, 0 } }, 0,
      RS_NONE, 0 },
    /* ---- thorough ---- */
    { "rejected requests issued by X while the units yield", 0, K_ERRORS,
      UK_ULT, "yy", RQ_EXT, 0, { { 0, 0 } }, 0, RS_NONE, 0 },
    { "ULT: self migrate_to_pool(B) then (C on ES2), yield x2", 0, K_NORMAL,
      UK_ULT, "yy", RQ_SELF, 2, { { API_POOL, PB }, { API_POOL, PC } }, 1,
      RS_NONE, 0 },
    { "ULT yields x3; X: migrate_to_sched(ES1) then migrate_to_pool(C on ES2)",
      0, K_NORMAL, UK_ULT, "yyy", RQ_EXT, 2,
      { { API_SCHED, PB }, { API_POOL, PC } }, 1, RS_NONE, 0 },
    { "ULT yield, suspend, yield; primary resumes; X: migrate_to_pool(B) then "
      "(C)", 0, K_NORMAL, UK_ULT, "ysy", RQ_EXT, 2,
      { { API_POOL, PB }, { API_POOL, PC } }, 0, RS_PRIMARY, 0 },
    { "ULT suspends x2, X requests migrate_to_pool(B) and resumes", 0, K_NORMAL,
      UK_ULT, "ss", RQ_EXT, 1, { { API_POOL, PB } }, 0, RS_EXT, 0 },
    { "tasklet; primary: migrate_to_xstream(ES1) before it can start", 0,
      K_NORMAL, UK_TASK, "", RQ_PRIMARY, 1, { { API_XSTREAM, PB } }, 0, RS_NONE,
      1 },
    { "tasklet; X: migrate_to_pool(B) then (C)", 0, K_NORMAL, UK_TASK, "",
      RQ_EXT, 2, { { API_POOL, PB }, { API_POOL, PC } }, 0, RS_NONE, 0 },
    { "ULT yields x2; X: ABT_thread_migrate (ES1, ES2 running)", 0, K_NORMAL,
      UK_ULT, "yy", RQ_EXT, 1, { { API_ANY, PB } }, 1, RS_NONE, 0 },
    { "ULT: self migrate_to_xstream(ES1), suspend, primary resumes", 0,
      K_NORMAL, UK_ULT, "s", RQ_SELF, 1, { { API_XSTREAM, PB } }, 0, RS_PRIMARY,
      1 },
    { "ULT yields x2; ULT on ES2: migrate_to_pool(B) then (C 2nd pool of ES1)",
      0, K_NORMAL, UK_ULT, "yy", RQ_ULT2, 2,
      { { API_POOL, PB }, { API_POOL, PC } }, 0, RS_NONE, 0 },
    { "ULT not started; primary: migrate_to_pool(B) then (C): last one wins",
      0, K_NORMAL, UK_ULT, "y", RQ_PRIMARY, 2,
      { { API_POOL, PB }, { API_POOL, PC } }, 0, RS_NONE, 0 },
    { "ULT suspends, X resumes; X: migrate_to_sched(ES1) before the resume", 0,
      K_NORMAL, UK_ULT, "sy", RQ_EXT, 1, { { API_SCHED, PB } }, 0, RS_EXT, 0 },
};

#define MAXS 8
static const cfg_t *C;
static ABT_pool pool[NPOOLS];
static ABT_xstream es1 = ABT_XSTREAM_NULL, es2 = ABT_XSTREAM_NULL;
static ABT_sched s1 = ABT_SCHED_NULL, s2 = ABT_SCHED_NULL;
static ABT_thread U = ABT_THREAD_NULL;
static int serving_rank[NPOOLS];

static struct { long t_call, t_ret; int rc, mask; } req[4];
static int nreq;
static struct { long t_start; int pool, rank; } slice[MAXS];
static int nslices;
static long bound[MAXS]; /* bound[k] precedes the scheduling check before slice k */
static struct { long t; int pool; } cb[MAXS];
static int ncb;
static int body_runs, u_done;
static int reqs_done;  /* hooked */
static int resumes_left; /* plain; resumer only */

static int pool_index(ABT_pool p)
{
    for (int i = 0; i < NPOOLS; i++)
        if (pool[i] != ABT_POOL_NULL && pool[i] == p)
            return i;
    return -1;
}

static int nb(ABT_pool p)
{
    return (int)ABTD_atomic_acquire_load_int32(
        &ABTI_pool_get_ptr(p)->num_blocked);
}

static void check_nonneg(const char *where)
{
    for (int i = 0; i < NPOOLS; i++)
        if (pool[i] != ABT_POOL_NULL)
            abtmc_check(nb(pool[i]) >= 0, "blocked_negative",
                        "%s: blocked count of pool %c is %d", where, 'A' + i,
                        nb(pool[i]));
}

static void migration_cb(ABT_thread t, void *arg)
{
    ABT_pool p;
    abtmc_check(t == U && arg == (void *)&ncb, "callback_args",
                "callback called with a wrong handle or argument");
    OK(ABT_thread_get_last_pool(t, &p));
    if (ncb < MAXS) {
        cb[ncb].pool = pool_index(p);
        cb[ncb].t = abtmc_step();
    }
    ncb++;
}

static int do_request(ABT_thread t, int api, int target)
{
    switch (api) {
        case API_POOL: return ABT_thread_migrate_to_pool(t, pool[target]);
        case API_SCHED:
            return ABT_thread_migrate_to_sched(t, target == PB ? s1 : s2);
        case API_XSTREAM:
            return ABT_thread_migrate_to_xstream(t, target == PB ? es1 : es2);
        default: return ABT_thread_migrate(t);
    }
}

static int target_mask(int api, int target)
{
    int sched1 = M(PB) | (C->c_on_es2 ? 0 : (pool[PC] != ABT_POOL_NULL ? M(PC) : 0));
    switch (api) {
        case API_POOL: return M(target);
        case API_SCHED:
        case API_XSTREAM: return target == PB ? sched1 : M(PC);
        default: /* any other stream: every pool but A */
            return M(PB) | (pool[PC] != ABT_POOL_NULL ? M(PC) : 0);
    }
}

static void issue_requests(int from, int to)
{
    for (int i = from; i < to; i++) {
        int n = nreq;
        req[n].mask = target_mask(C->rq[i].api, C->rq[i].target);
        req[n].t_call = abtmc_step();
        req[n].rc = do_request(U, C->rq[i].api, C->rq[i].target);
        req[n].t_ret = abtmc_step();
        nreq = n + 1;
    }
}

static void u_fn(void *arg)
{
    (void)arg;
    int nsteps = (int)strlen(C->steps);
    body_runs++;
    for (int k = 0;; k++) {
        ABT_pool p;
        int rank = -1;
        slice[k].t_start = abtmc_step();
        OK(ABT_self_get_last_pool(&p));
        OK(ABT_self_get_xstream_rank(&rank));
        slice[k].pool = pool_index(p);
        slice[k].rank = rank;
        nslices = k + 1;
        if (C->unit == UK_ULT) {
            ABT_thread self;
            ABT_thread_state st;
            OK(ABT_self_get_thread(&self));
            abtmc_check(self == U, "wrong_self", "ABT_self_get_thread != U");
            OK(ABT_thread_get_state(U, &st));
            abtmc_check(st == ABT_THREAD_STATE_RUNNING, "state_not_running",
                        "U is executing but its state is %d", (int)st);
        }
        if (k == 0 && C->requester == RQ_SELF)
            issue_requests(0, C->nreq);
        if (k == nsteps)
            break;
        if (C->steps[k] == 'y') {
            bound[k + 1] = abtmc_step();
            OK(ABT_thread_yield());
        } else {
            OK(ABT_self_suspend());
        }
    }
    /* requests on a terminated work unit are undefined: stay alive until the
     * requester is done (late requests are simply never performed) */
    if (C->requester == RQ_EXT || C->requester == RQ_ULT2 ||
        C->requester == RQ_PRIM1_EXT)
        abtmc_wait_until_eq(&reqs_done, 1);
    u_done++;
}

static void resume_loop(int is_ult)
{
    while (resumes_left > 0) {
        for (;;) {
            ABT_thread_state st;
            OK(ABT_thread_get_state(U, &st));
            if (st == ABT_THREAD_STATE_BLOCKED)
                break;
            if (is_ult)
                OK(ABT_thread_yield());
            else
                abtmc_spin_hint(1001, &U);
        }
        /* the suspended slice is the one with the highest index so far; the
         * next slice's scheduling check comes after the push done here */
        int k = nslices;
        int total = 0;
        for (int i = 0; i < NPOOLS; i++)
            if (pool[i] != ABT_POOL_NULL)
                total += nb(pool[i]);
        check_nonneg("while U is suspended");
        /* the primary ULT may itself be blocked in ABT_thread_join(U) (it
         * belongs to A) unless it is the resumer */
        abtmc_check(total >= 1 && total <= (is_ult ? 1 : 2), "blocked_count",
                    "U is suspended (and at most the joining primary ULT) but "
                    "the blocked counts add up to %d", total);
        bound[k] = abtmc_step();
        int rc = ABT_thread_resume(U);
        abtmc_check(rc == ABT_SUCCESS, "resume_failed",
                    "ABT_thread_resume of a BLOCKED ULT returned %d", rc);
        check_nonneg("after ABT_thread_resume(U) returned");
        resumes_left--;
    }
}

static void requester_fn(void *arg)
{
    (void)arg;
    issue_requests(C->requester == RQ_PRIM1_EXT ? 1 : 0, C->nreq);
    abtmc_store(&reqs_done, 1);
    if (C->resumer == RS_EXT)
        resume_loop(0);
}

static void resumer_only_fn(void *arg)
{
    (void)arg;
    resume_loop(0);
}

/* ------------------------------------------------------------------------ */

static void check_log(void)
{
    int nsteps = (int)strlen(C->steps);
    abtmc_check(body_runs == 1 && u_done == 1 && nslices == nsteps + 1,
                "unit_run_count",
                "U's function was entered %d times, completed %d times, %d "
                "slices (expected 1, 1, %d)", body_runs, u_done, nslices,
                nsteps + 1);
    if (C->nreq > 0 && C->rq[0].api == API_ANY) {
        abtmc_check(req[0].rc == ABT_SUCCESS, "migrate_no_target",
                    "ABT_thread_migrate returned %d although another running "
                    "execution stream, whose main scheduler does not own U's "
                    "pool, exists", req[0].rc);
        for (int j = 0; j < ncb && j < MAXS; j++)
            abtmc_check(cb[j].pool != PA, "migrate_no_target",
                        "ABT_thread_migrate returned ABT_SUCCESS but chose "
                        "U's own pool A as the target (callback %d reports "
                        "pool A) although another running stream exists", j);
    }
    int nsucc = 0;
    for (int i = 0; i < nreq; i++) {
        if (req[i].rc == ABT_SUCCESS)
            nsucc++;
        else
            /* no request names a pool U can already be in: A is never a
             * target and no two requests share a target */
            abtmc_check(0, "request_rc", "request %d returned %d", i,
                        req[i].rc);
    }

    /* callbacks: at most one per acknowledged request, each announcing a pool
     * that had been requested by then */
    abtmc_check(ncb <= nsucc, "callback_count",
                "%d callbacks for %d acknowledged requests", ncb, nsucc);
    for (int j = 0; j < ncb && j < MAXS; j++) {
        int ok = 0;
        for (int i = 0; i < nreq; i++)
            if (req[i].rc == ABT_SUCCESS && req[i].t_call < cb[j].t &&
                cb[j].pool >= 0 && (req[i].mask & M(cb[j].pool)))
                ok = 1;
        abtmc_check(ok, "callback_pool",
                    "callback %d saw U associated with pool %c, which no "
                    "earlier request named (callback before the "
                    "re-association?)", j, cb[j].pool < 0 ? '?' : 'A' + cb[j].pool);
    }
    for (int k = 0; k < nslices; k++) {
        int p = slice[k].pool;
        abtmc_check(p >= 0, "unknown_pool", "slice %d: unknown last pool", k);
        /* the stream executing the slice serves the pool it came from */
        abtmc_check(slice[k].rank == serving_rank[p], "ran_on_wrong_stream",
                    "slice %d: last pool %c but executed by stream %d", k,
                    'A' + p, slice[k].rank);
        /* the pool is the one announced by the latest callback (A if none):
         * one callback per performed migration, none without */
        int expect = PA;
        long from = -1;
        for (int j = 0; j < ncb && j < MAXS; j++)
            if (cb[j].t < slice[k].t_start && cb[j].t > from) {
                expect = cb[j].pool;
                from = cb[j].t;
            }
        abtmc_check(p == expect, "callback_mismatch",
                    "slice %d runs from pool %c but the callbacks so far "
                    "announce %c", k, 'A' + p, 'A' + expect);
        /* fulfilment: the last request acknowledged before the scheduling
         * decision that precedes this slice (or a later one) decides where
         * the slice comes from */
        if (bound[k] == 0)
            continue;
        int L = -1;
        for (int i = 0; i < nreq; i++)
            if (req[i].rc == ABT_SUCCESS && req[i].t_ret < bound[k])
                L = i;
        if (L < 0)
            continue;
        int allowed = req[L].mask;
        for (int i = L + 1; i < nreq; i++)
            if (req[i].rc == ABT_SUCCESS && req[i].t_call < slice[k].t_start)
                allowed |= req[i].mask;
        abtmc_check(allowed & M(p), "request_not_honoured",
                    "request %d was acknowledged (ABT_SUCCESS) before U's "
                    "scheduling point preceding slice %d, but that slice runs "
                    "from pool %c (acceptable mask 0x%x)", L, k, 'A' + p,
                    allowed);
    }
}

static void scenario_errors(void);

static void scenario(int cfg)
{
    C = &cfgs[cfg];
    for (int i = 0; i < NPOOLS; i++)
        pool[i] = ABT_POOL_NULL;
    if (C->kind == K_ERRORS) {
        scenario_errors();
        return;
    }
    h_init();
    int need_c = 0;
    for (int i = 0; i < C->nreq; i++)
        if (C->rq[i].target == PC || (C->rq[i].api == API_ANY && C->c_on_es2))
            need_c = 1;
    pool[PA] = h_main_pool(h_self_xstream());
    serving_rank[PA] = 0;
    OK(ABT_pool_create_basic(ABT_POOL_FIFO, ABT_POOL_ACCESS_MPMC, ABT_FALSE,
                             &pool[PB]));
    if (need_c)
        OK(ABT_pool_create_basic(ABT_POOL_FIFO, ABT_POOL_ACCESS_MPMC, ABT_FALSE,
                                 &pool[PC]));
    {
        ABT_pool ps[2] = { pool[PB], pool[PC] };
        OK(ABT_sched_create_basic(ABT_SCHED_BASIC,
                                  (need_c && !C->c_on_es2) ? 2 : 1, ps,
                                  ABT_SCHED_CONFIG_NULL, &s1));
        OK(ABT_xstream_create(s1, &es1));
        OK(ABT_xstream_get_rank(es1, &serving_rank[PB]));
        serving_rank[PC] = serving_rank[PB];
    }
    if (need_c && C->c_on_es2) {
        OK(ABT_sched_create_basic(ABT_SCHED_BASIC, 1, &pool[PC],
                                  ABT_SCHED_CONFIG_NULL, &s2));
        OK(ABT_xstream_create(s2, &es2));
        OK(ABT_xstream_get_rank(es2, &serving_rank[PC]));
    } else if (C->requester == RQ_ULT2) {
        OK(ABT_xstream_create(ABT_SCHED_NULL, &es2));
    }
    for (const char *s = C->steps; *s; s++)
        if (*s == 's')
            resumes_left++;

    for (int i = 0; i < (int)(sizeof(pool) / sizeof(pool[0])); i++)
        h_watch_pool(pool[i]);
    abtmc_window_begin();
    if (C->unit == UK_TASK) {
        OK(ABT_task_create(pool[PA], u_fn, NULL, &U));
        OK(ABT_thread_set_callback(U, migration_cb, &ncb));
    } else if (C->cb_attr) {
        ABT_thread_attr at;
        OK(ABT_thread_attr_create(&at));
        OK(ABT_thread_attr_set_callback(at, migration_cb, &ncb));
        OK(ABT_thread_create(pool[PA], u_fn, NULL, at, &U));
        OK(ABT_thread_attr_free(&at));
    } else {
        OK(ABT_thread_create(pool[PA], u_fn, NULL, ABT_THREAD_ATTR_NULL, &U));
        OK(ABT_thread_set_callback(U, migration_cb, &ncb));
    }
    {
        ABT_bool mig;
        OK(ABT_thread_is_migratable(U, &mig));
        abtmc_check(mig == ABT_TRUE, "not_migratable",
                    "a default work unit is reported non-migratable");
    }
    int xt = -1, xr = -1;
    ABT_thread rt = ABT_THREAD_NULL;
    if (C->requester == RQ_PRIMARY) {
        issue_requests(0, C->nreq);
    } else if (C->requester == RQ_EXT) {
        xt = abtmc_thread_create(requester_fn, NULL);
    } else if (C->requester == RQ_PRIM1_EXT) {
        issue_requests(0, 1);
        xt = abtmc_thread_create(requester_fn, NULL);
    } else if (C->requester == RQ_ULT2) {
        OK(ABT_thread_create(h_main_pool(es2), requester_fn, NULL,
                             ABT_THREAD_ATTR_NULL, &rt));
    }
    if (C->resumer == RS_EXT && xt < 0)
        xr = abtmc_thread_create(resumer_only_fn, NULL);
    /* A is served by ES0 only and ES0 is busy running this ULT: U's first
     * scheduling decision comes after this stamp */
    bound[0] = abtmc_step();
    if (C->resumer == RS_PRIMARY)
        resume_loop(1);
    OK(ABT_thread_join(U));
    if (xt >= 0)
        abtmc_thread_join(xt);
    if (xr >= 0)
        abtmc_thread_join(xr);
    if (rt != ABT_THREAD_NULL)
        OK(ABT_thread_free(&rt));
    abtmc_window_end();

    check_log();
    for (int i = 0; i < NPOOLS; i++)
        if (pool[i] != ABT_POOL_NULL) {
            size_t sz;
            int b = h_pool_blocked(pool[i]);
            OK(ABT_pool_get_size(pool[i], &sz));
            abtmc_check(b == 0 && nb(pool[i]) == 0, "blocked_count",
                        "at the end pool %c reports %d blocked units (counter "
                        "%d)", 'A' + i, b, nb(pool[i]));
            abtmc_check(sz == 0, "unit_left_in_pool", "pool %c holds %zu units",
                        'A' + i, sz);
        }
    {
        char path[MAXS + 1], rcs[8];
        for (int k = 0; k < nslices; k++)
            path[k] = (char)('A' + slice[k].pool);
        path[nslices] = 0;
        for (int i = 0; i < nreq; i++)
            rcs[i] = req[i].rc == ABT_SUCCESS ? 's' : 't';
        rcs[nreq] = 0;
        abtmc_observe("path=%s rc=%s cb=%d", path, rcs, ncb);
    }
    OK(ABT_thread_free(&U));
    OK(ABT_xstream_join(es1));
    OK(ABT_xstream_free(&es1));
    if (es2 != ABT_XSTREAM_NULL) {
        OK(ABT_xstream_join(es2));
        OK(ABT_xstream_free(&es2));
    }
    OK(ABT_pool_free(&pool[PB]));
    if (pool[PC] != ABT_POOL_NULL)
        OK(ABT_pool_free(&pool[PC]));
    h_finalize();
    abtmc_check(abtmc_ledger_live() == 0, "leak_after_finalize",
                "%ld resources live after ABT_finalize", abtmc_ledger_live());
}

/* ---- rejected requests -------------------------------------------------- */

enum { E_NOMIG_ATTR, E_NOMIG_SET, E_PLAIN, NE };
static ABT_thread eu[NE];
static int e_runs[NE], e_cb;
static ABT_thread ms0, ms1;
static ABT_sched sched0, sched2p;

static void e_cb_fn(ABT_thread t, void *arg)
{
    (void)t;
    (void)arg;
    e_cb++;
}

static void e_fn(void *arg)
{
    int i = (int)(intptr_t)arg;
    int nsteps = (int)strlen(C->steps);
    e_runs[i]++;
    for (int k = 0;; k++) {
        ABT_pool p;
        int rank;
        OK(ABT_self_get_last_pool(&p));
        OK(ABT_self_get_xstream_rank(&rank));
        abtmc_check(p == pool[PA] && rank == 0, "rejected_request_migrated",
                    "unit %d: every request was rejected but it runs from "
                    "pool %c on stream %d", i, 'A' + pool_index(p), rank);
        if (k == nsteps)
            break;
        abtmc_progress(); /* the slice counter lives on the stack */
        OK(ABT_thread_yield());
    }
    if (C->requester == RQ_EXT)
        abtmc_wait_until_eq(&reqs_done, 1);
}

#define EXPECT(call, code, key, what)                                          \
    do {                                                                       \
        int rc_ = (call);                                                      \
        abtmc_check(rc_ == (code), key, "%s: %s returned %d, expected %d",     \
                    what, #call, rc_, (int)(code));                            \
    } while (0)

static void error_requests(void *arg)
{
    (void)arg;
    for (int i = E_NOMIG_ATTR; i <= E_NOMIG_SET; i++) {
        const char *w = "non-migratable ULT";
        EXPECT(ABT_thread_migrate_to_pool(eu[i], pool[PB]), ABT_ERR_INV_THREAD,
               "rc_not_migratable", w);
        EXPECT(ABT_thread_migrate_to_sched(eu[i], s1), ABT_ERR_INV_THREAD,
               "rc_not_migratable", w);
        EXPECT(ABT_thread_migrate_to_xstream(eu[i], es1), ABT_ERR_INV_THREAD,
               "rc_not_migratable", w);
        EXPECT(ABT_thread_migrate(eu[i]), ABT_ERR_INV_THREAD,
               "rc_not_migratable", w);
    }
    {
        const char *w = "main scheduler's ULT";
        EXPECT(ABT_thread_migrate_to_pool(ms1, pool[PA]), ABT_ERR_INV_THREAD,
               "rc_main_sched", w);
        EXPECT(ABT_thread_migrate_to_xstream(ms0, es1), ABT_ERR_INV_THREAD,
               "rc_main_sched", w);
        EXPECT(ABT_thread_migrate_to_sched(ms0, s1), ABT_ERR_INV_THREAD,
               "rc_main_sched", w);
        EXPECT(ABT_thread_migrate(ms1), ABT_ERR_INV_THREAD, "rc_main_sched", w);
    }
    {
        const char *w = "target is the unit's current pool";
        EXPECT(ABT_thread_migrate_to_pool(eu[E_PLAIN], pool[PA]),
               ABT_ERR_MIGRATION_TARGET, "rc_current_pool", w);
        EXPECT(ABT_thread_migrate_to_sched(eu[E_PLAIN], sched0),
               ABT_ERR_MIGRATION_TARGET, "rc_current_pool", w);
        /* the unit's pool is the SECOND pool of the named scheduler (the
         * migration pool it would hand out is another one) */
        EXPECT(ABT_thread_migrate_to_sched(eu[E_PLAIN], sched2p),
               ABT_ERR_MIGRATION_TARGET, "rc_current_pool",
               "target scheduler has the unit's pool as its second pool");
    }
    abtmc_store(&reqs_done, 1);
}

static void scenario_errors(void)
{
    h_init();
    ABT_xstream es0 = h_self_xstream();
    pool[PA] = h_main_pool(es0);
    OK(ABT_pool_create_basic(ABT_POOL_FIFO, ABT_POOL_ACCESS_MPMC, ABT_FALSE,
                             &pool[PB]));
    OK(ABT_sched_create_basic(ABT_SCHED_BASIC, 1, &pool[PB],
                              ABT_SCHED_CONFIG_NULL, &s1));
    OK(ABT_xstream_create(s1, &es1));
    OK(ABT_xstream_get_main_sched(es0, &sched0));
    {
        /* an unattached scheduler over {fresh pool, the units' pool} */
        ABT_pool two[2];
        OK(ABT_pool_create_basic(ABT_POOL_FIFO, ABT_POOL_ACCESS_MPMC, ABT_TRUE,
                                 &two[0]));
        two[1] = pool[PA];
        OK(ABT_sched_create_basic(ABT_SCHED_BASIC, 2, two, ABT_SCHED_CONFIG_NULL,
                                  &sched2p));
    }
    ms0 = ABTI_ythread_get_handle(ABTI_sched_get_ptr(sched0)->p_ythread);
    ms1 = ABTI_ythread_get_handle(ABTI_sched_get_ptr(s1)->p_ythread);

    abtmc_window_begin();
    ABT_thread_attr at;
    ABT_bool mig;
    OK(ABT_thread_attr_create(&at));
    OK(ABT_thread_attr_set_migratable(at, ABT_FALSE));
    OK(ABT_thread_attr_set_callback(at, e_cb_fn, NULL));
    OK(ABT_thread_create(pool[PA], e_fn, (void *)(intptr_t)E_NOMIG_ATTR, at,
                         &eu[E_NOMIG_ATTR]));
    OK(ABT_thread_attr_free(&at));
    OK(ABT_thread_create(pool[PA], e_fn, (void *)(intptr_t)E_NOMIG_SET,
                         ABT_THREAD_ATTR_NULL, &eu[E_NOMIG_SET]));
    OK(ABT_thread_set_migratable(eu[E_NOMIG_SET], ABT_FALSE));
    OK(ABT_thread_set_callback(eu[E_NOMIG_SET], e_cb_fn, NULL));
    OK(ABT_thread_create(pool[PA], e_fn, (void *)(intptr_t)E_PLAIN,
                         ABT_THREAD_ATTR_NULL, &eu[E_PLAIN]));
    OK(ABT_thread_set_callback(eu[E_PLAIN], e_cb_fn, NULL));
    for (int i = E_NOMIG_ATTR; i <= E_NOMIG_SET; i++) {
        OK(ABT_thread_is_migratable(eu[i], &mig));
        abtmc_check(mig == ABT_FALSE, "not_migratable",
                    "unit %d made non-migratable is reported migratable", i);
    }
    int xt = -1;
    if (C->requester == RQ_EXT)
        xt = abtmc_thread_create(error_requests, NULL);
    else
        error_requests(NULL);
    /* target stream whose main scheduler owns the unit's pool */
    EXPECT(ABT_thread_migrate_to_xstream(eu[E_PLAIN], es0),
           ABT_ERR_MIGRATION_TARGET, "rc_current_pool",
           "target stream serves the unit's current pool");
    for (int i = 0; i < NE; i++)
        OK(ABT_thread_free(&eu[i]));
    if (xt >= 0)
        abtmc_thread_join(xt);
    abtmc_window_end();
    for (int i = 0; i < NE; i++)
        abtmc_check(e_runs[i] == 1, "unit_run_count", "unit %d ran %d times", i,
                    e_runs[i]);
    abtmc_check(e_cb == 0, "callback_count",
                "%d callbacks although no migration was accepted", e_cb);
    abtmc_observe("rejected ok");
    OK(ABT_sched_free(&sched2p));
    OK(ABT_xstream_join(es1));
    OK(ABT_xstream_free(&es1));
    OK(ABT_pool_free(&pool[PB]));
    h_finalize();
}

static const char *cfg_name(int i) { return cfgs[i].name; }
static int cfg_quick(int i) { return cfgs[i].quick; }

int main(int argc, char **argv)
{
    static abtmc_driver d = { "c13_migrate", "C13", ARRAY_LEN(cfgs), cfg_name,
                              scenario, cfg_quick };
    return abtmc_main(argc, argv, &d);
}
