/* c01_xrevive.c -- C01 (and C06): every unit pushed to a pool that a REVIVED
 * execution stream serves runs exactly once, whenever it is pushed relative
 * to the revived scheduler's first look at its (empty) pools, and
 * join/free after the revive wait for it.  A stale termination request that
 * survives ABT_xstream_revive makes the revived scheduler stop at its first
 * idle check; units pushed after that moment are accepted and never run.
 *
 *   ES1 (own FIFO pool Q, BASIC or BASIC_WAIT scheduler), cycles of
 *   [push units] -> end (join | cancel+join) -> revive -> [push units] -> ...
 * Pushed units: unnamed ULT, named ULT, tasklet.  The pusher is the primary
 * ULT or an external thread.  The scheduler's first idle check and the push
 * race; the explorer orders them both ways. */
#include "common.h"

enum { E_JOIN, E_CANCEL_JOIN };
enum { PUSH_PRIMARY, PUSH_EXT };

typedef struct {
    const char *name;
    int quick, cycles, endk, pusher, first_cycle_units, wait_sched;
} cfg_t;
static const cfg_t cfgs[] = {
    { "BASIC: join(empty), revive, push 3, join", 1, 2, E_JOIN, PUSH_PRIMARY, 0, 0 },
    { "BASIC: push 3, join, revive, push 3, join, revive, push 3, free", 1, 3,
      E_JOIN, PUSH_PRIMARY, 1, 0 },
    { "BASIC: cancel+join(empty), revive, push 3, join", 1, 2, E_CANCEL_JOIN,
      PUSH_PRIMARY, 0, 0 },
    { "BASIC_WAIT: join(empty), revive, X pushes 3, join", 0, 2, E_JOIN, PUSH_EXT,
      0, 1 },
    { "BASIC: push 3, cancel+join, revive, push 3, join", 0, 2, E_CANCEL_JOIN,
      PUSH_PRIMARY, 1, 0 },
};

#define NU 3
static const cfg_t *C;
static ABT_xstream es1;
static ABT_pool Q;
static int ran[4][NU];       /* [cycle][unit] */
static int ran_rank[4][NU];
static ABT_thread named[4];
static int cur_cycle;

static void unit_fn(void *arg)
{
    int id = (int)(intptr_t)arg;
    int c = id / NU, u = id % NU, rank = -1;
    ABT_xstream_self_rank(&rank);
    ran_rank[c][u] = rank;
    ran[c][u]++;
    abtmc_check(ran[c][u] == 1, "ran_twice", "unit %d of cycle %d ran %d times", u,
                c, ran[c][u]);
}

static void push_units(int c)
{
    void *a0 = (void *)(intptr_t)(c * NU + 0), *a1 = (void *)(intptr_t)(c * NU + 1),
         *a2 = (void *)(intptr_t)(c * NU + 2);
    OK(ABT_thread_create(Q, unit_fn, a0, ABT_THREAD_ATTR_NULL, NULL));
    OK(ABT_thread_create(Q, unit_fn, a1, ABT_THREAD_ATTR_NULL, &named[c]));
    OK(ABT_task_create(Q, unit_fn, a2, NULL));
}

static void x_push(void *arg)
{
    push_units((int)(intptr_t)arg);
}

static void check_cycle(int c, int cancelled)
{
    ABT_xstream_state st;
    OK(ABT_xstream_get_state(es1, &st));
    abtmc_check(st == ABT_XSTREAM_STATE_TERMINATED, "not_terminated",
                "cycle %d: stream state %d after join", c, (int)st);
    size_t sz = 0;
    OK(ABT_pool_get_total_size(Q, &sz));
    int missing = 0;
    for (int u = 0; u < NU; u++)
        missing += ran[c][u] == 0;
    if (cancelled) {
        /* a cancelled stream may leave units behind, but never runs one twice;
         * what it did not run must still be in the pool */
        abtmc_check((int)sz == missing, "lost_unit",
                    "cycle %d (cancel): %d units did not run but the pool holds %zu",
                    c, missing, sz);
        return;
    }
    abtmc_check(missing == 0 && sz == 0, "unit_not_run",
                "cycle %d: ABT_xstream_join returned (stream TERMINATED) but %d of "
                "%d units pushed to its pool never ran; %zu unit(s) still sit in "
                "the pool", c, missing, NU, sz);
}

static void scenario(int cfg)
{
    C = &cfgs[cfg];
    h_init();
    ABT_sched s;
    OK(ABT_pool_create_basic(C->wait_sched ? ABT_POOL_FIFO_WAIT : ABT_POOL_FIFO,
                             ABT_POOL_ACCESS_MPMC, ABT_TRUE, &Q));
    OK(ABT_sched_create_basic(C->wait_sched ? ABT_SCHED_BASIC_WAIT : ABT_SCHED_BASIC,
                              1, &Q, ABT_SCHED_CONFIG_NULL, &s));
    abtmc_window_begin();
    OK(ABT_xstream_create(s, &es1));
    int left_over = 0;
    for (int c = 0; c < C->cycles; c++) {
        cur_cycle = c;
        int pushed = 0, x = -1;
        if (c > 0) {
            OK(ABT_xstream_revive(es1));
            ABT_xstream_state st;
            OK(ABT_xstream_get_state(es1, &st));
            abtmc_check(st == ABT_XSTREAM_STATE_RUNNING, "revive_state",
                        "state %d right after ABT_xstream_revive", (int)st);
        }
        if (c > 0 || C->first_cycle_units) {
            if (C->pusher == PUSH_EXT)
                x = abtmc_thread_create(x_push, (void *)(intptr_t)c);
            else
                push_units(c);
            pushed = 1;
        }
        if (x >= 0)
            abtmc_thread_join(x); /* the push is complete before the join request */
        int cancel = C->endk == E_CANCEL_JOIN && c == 0;
        if (cancel)
            OK(ABT_xstream_cancel(es1));
        if (c == C->cycles - 1 && C->cycles == 3) {
            /* free = join + free; keep the pool (automatic=TRUE pools of a
             * scheduler are freed with it), so check through the counters */
            OK(ABT_xstream_free(&es1));
            int missing = 0;
            for (int u = 0; u < NU; u++)
                missing += ran[c][u] == 0;
            abtmc_check(missing == 0, "unit_not_run",
                        "cycle %d: ABT_xstream_free returned but %d units never ran",
                        c, missing);
        } else {
            OK(ABT_xstream_join(es1));
            if (pushed)
                check_cycle(c, cancel);
            else {
                ABT_xstream_state st;
                OK(ABT_xstream_get_state(es1, &st));
                abtmc_check(st == ABT_XSTREAM_STATE_TERMINATED, "not_terminated",
                            "cycle %d: state %d after join", c, (int)st);
            }
            if (cancel && pushed) {
                /* units a cancelled stream left in the pool are run by the next
                 * incarnation */
                for (int u = 0; u < NU; u++)
                    left_over += ran[c][u] == 0;
            }
        }
        if (c > 0 && left_over) {
            /* after a later plain join everything has run */
            int missing = 0;
            for (int u = 0; u < NU; u++)
                missing += ran[0][u] == 0;
            abtmc_check(missing == 0, "unit_not_run",
                        "%d units left behind by the cancelled incarnation were "
                        "not run by the revived stream before its join returned",
                        missing);
        }
    }
    abtmc_window_end();
    {
        char o[64];
        int k = 0;
        for (int c = 0; c < C->cycles; c++)
            k += snprintf(o + k, sizeof(o) - k, "%d%d%d ", ran[c][0], ran[c][1],
                          ran[c][2]);
        abtmc_observe("%s", o);
    }
    for (int c = 0; c < C->cycles; c++)
        if (c > 0 || C->first_cycle_units)
            OK(ABT_thread_free(&named[c]));
    if (es1 != ABT_XSTREAM_NULL)
        OK(ABT_xstream_free(&es1));
    h_finalize();
    abtmc_check(abtmc_ledger_live() == 0, "leak", "%ld live allocations",
                abtmc_ledger_live());
}

static const char *cfg_name(int i) { return cfgs[i].name; }
static int cfg_quick(int i) { return cfgs[i].quick; }

int main(int argc, char **argv)
{
    static abtmc_driver d = { "c01_xrevive", "C01", ARRAY_LEN(cfgs), cfg_name,
                              scenario, cfg_quick };
    return abtmc_main(argc, argv, &d);
}
