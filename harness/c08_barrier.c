/* c08_barrier.c -- C08 (ABT_barrier half): nobody is released early, everybody
 * is released once the last waiter arrives, the barrier is reusable at once
 * for further rounds and after ABT_barrier_reinit.
 *
 * 1-3 waiters drawn from {ULT on ES0, second ULT on ES0, ULT on ES1, external
 * thread, the primary ULT} run 2-3 consecutive rounds of ABT_barrier_wait
 * with nothing but the stamps between the rounds, so a fast waiter re-enters
 * round k+1 while slow ones are still leaving round k.  Optionally tasklets on
 * ES1 call ABT_barrier_wait concurrently: with the 1.x API they must get
 * ABT_ERR_BARRIER and must not be counted.  Reinit variant: between two
 * rounds participant 0 waits until every participant has reported (driver
 * counter) that it left the round, calls ABT_barrier_reinit(n') and then opens
 * a driver gate for the next round -- the documentation makes reinit undefined
 * while a waiter is blocked or the barrier is accessed concurrently.
 * Oracle: see c08_common.h. */
#include "abti.h"
#include "c08_common.h"

enum { K_U0, K_U1, K_X, K_M };

typedef struct {
    const char *name;
    int quick;
    int nact;       /* waiters (actor i takes part in round k iff i < n[k]) */
    int kind[B_MAXA];
    int rounds;
    int n[B_MAXR];  /* num_waiters of round k */
    int reinit;     /* call ABT_barrier_reinit between all rounds (2: early) */
    int ntask;      /* tasklets on ES1 calling ABT_barrier_wait once */
    int free_early; /* participant 1 frees the barrier right after its last wait
                     * returned (participant 0 is the last arrival and may still
                     * be inside ABT_barrier_wait: ABT_barrier_free waits for it) */
} cfg_t;

/* NOTE: registry/C08.json names configs 0-3 by index for its P=3 runs; keep
 * them first.  Quick configs are ordered cheap first. */
static const cfg_t cfgs[] = {
    /* ------------------------------------------------------------ quick */
    { "n=2 r=2: U0 + U1", 1, 2, { K_U0, K_U1 }, 2, { 2, 2 }, 0, 0 },
    { "n=3 r=2: U0 + U0 + X", 1, 3, { K_U0, K_U0, K_X }, 2, { 3, 3 }, 0, 0 },
    { "n=2 r=2: X + M (primary ULT)", 1, 2, { K_X, K_M }, 2, { 2, 2 }, 0, 0 },
    { "n=2 r=3: U1 + X", 1, 2, { K_U1, K_X }, 3, { 2, 2, 2 }, 0, 0 },
    { "reinit 2->2 r=2: X + U1", 1, 2, { K_X, K_U1 }, 2, { 2, 2 }, 1, 0 },
    { "n=2 r=2: X + U0 | tasklet on ES1 (ERR_BARRIER)", 1, 2, { K_X, K_U0 }, 2,
      { 2, 2 }, 0, 1 },
    /* --------------------------------------------------------- thorough */
    { "n=3 r=2: U0 + U1 + X", 0, 3, { K_U0, K_U1, K_X }, 2, { 3, 3 }, 0, 0 },
    { "reinit 2->3 r=2: U1 + X (+ U0 in round 1)", 0, 3, { K_U1, K_X, K_U0 }, 2,
      { 2, 3 }, 1, 0 },
    { "n=3 r=3: U1 + U1 + X", 0, 3, { K_U1, K_U1, K_X }, 3, { 3, 3, 3 }, 0, 0 },
    { "n=1 r=3: X | tasklet on ES1", 0, 1, { K_X }, 3, { 1, 1, 1 }, 0, 1 },
    { "reinit 3->2 r=2: U0 + U1 + X (X only round 0)", 0, 3,
      { K_U0, K_U1, K_X }, 2, { 3, 2 }, 1, 0 },
    { "reinit 2->1->2 r=3: X + U1 (U1 skips round 1)", 0, 2, { K_X, K_U1 }, 3,
      { 2, 1, 2 }, 1, 0 },
    { "n=2 r=3: X + X", 0, 2, { K_X, K_X }, 3, { 2, 2, 2 }, 0, 0 },
    { "n=3 r=2: U1 + X + M", 0, 3, { K_U1, K_X, K_M }, 2, { 3, 3 }, 0, 0 },
    { "n=2 r=2: U1 + X | 2 tasklets on ES1", 0, 2, { K_U1, K_X }, 2, { 2, 2 }, 0,
      2 },
    { "n=2 r=3: U0 + U1", 0, 2, { K_U0, K_U1 }, 3, { 2, 2, 2 }, 0, 0 },
    { "reinit 1->2->3 r=3: X (+ U1) (+ U0)", 0, 3, { K_X, K_U1, K_U0 }, 3,
      { 1, 2, 3 }, 1, 0 },
    /* early reinit: participant 0 enters each round last (it waits until the
     * others are counted) and reinitialises as soon as ITS wait has returned
     * (the round is complete, the counter is 0, the lock is released) while the
     * released waiters may still be leaving */
    { "early reinit 2->2 r=2: U1 (reinit right after its return) + X", 1, 2,
      { K_U1, K_X }, 2, { 2, 2 }, 2, 0 },
    { "early reinit 2->3 r=2: M + X (+ U1 in round 1)", 0, 3, { K_M, K_X, K_U1 },
      2, { 2, 3 }, 2, 0 },
    { "early reinit 2->2 r=3: X (reinit) + U1", 0, 2, { K_X, K_U1 }, 3,
      { 2, 2, 2 }, 2, 0 },
    /* a released waiter frees the barrier at once */
    { "free by a released waiter n=2 r=2: M (last arrival) + U1 (frees)", 1, 2,
      { K_M, K_U1 }, 2, { 2, 2 }, 0, 0, 1 },
    { "free by a released waiter n=3 r=1: X (last arrival) + U1 (frees) + U0", 0, 3,
      { K_X, K_U1, K_U0 }, 1, { 3 }, 0, 0, 1 },
    /* (not checked: the same with an EXTERNAL-thread waiter of the round still
     * leaving -- it re-reads the futex word inside the barrier after the free;
     * neither C08 nor the documentation covers freeing at that moment, see
     * DESIGN.md 8.2 "observations") */
};

static const cfg_t *C;
static ABT_barrier BAR;
static int left_cnt[B_MAXR]; /* hooked: participants that left round k */
static int go[B_MAXR];       /* hooked: round k may be entered (reinit variant) */
static int task_calls;       /* hooked */
static long task_stamp[2];

static void wait_eq(int kind, const int *p, int v)
{
    if (kind == K_X) {
        abtmc_wait_until_eq(p, v);
    } else {
        while (abtmc_load(p) != v)
            OK(ABT_thread_yield());
    }
}

static void waiter(int i)
{
    int kind = C->kind[i];
    for (int k = 0; k < C->rounds; k++) {
        if (C->reinit && k > 0) {
            if (i == 0) {
                /* nobody is inside ABT_barrier_wait any more (reinit == 1);
                 * reinit == 2: the caller itself has left the round, which is
                 * therefore complete, but the others may still be leaving */
                if (C->reinit == 1)
                    wait_eq(kind, &left_cnt[k - 1], C->n[k - 1]);
                OK(ABT_barrier_reinit(BAR, (uint32_t)C->n[k]));
                uint32_t nw = 0;
                OK(ABT_barrier_get_num_waiters(BAR, &nw));
                abtmc_check((int)nw == C->n[k], "barrier_reinit",
                            "num_waiters is %u after reinit(%d)", nw, C->n[k]);
                abtmc_store(&go[k], 1);
            } else if (i < C->n[k]) {
                wait_eq(kind, &go[k], 1);
            }
        }
        if (i >= C->n[k])
            continue;
        if ((C->reinit == 2 || C->free_early) && i == 0 && C->n[k] > 1) {
            /* early reinit is only defined when issued by the LAST arrival of the
             * round (the others are released by its broadcast before it resets
             * the arrival counter; a released waiter that reinitialised at once
             * would access the barrier concurrently with the last arrival, which
             * the documentation makes undefined): enter only when everybody else
             * is counted */
            const int *cnt = (const int *)&ABTI_barrier_get_ptr(BAR)->counter;
            if (kind == K_X) {
                abtmc_wait_until_eq(cnt, C->n[k] - 1);
            } else {
                while (abtmc_load(cnt) != C->n[k] - 1)
                    OK(ABT_thread_yield());
            }
        }
        b_arrive(i, k);
        int rc = ABT_barrier_wait(BAR);
        abtmc_check(rc == ABT_SUCCESS, "barrier_wait_rc",
                    "ABT_barrier_wait returned %d", rc);
        b_depart(i, k, "ABT_barrier");
        if (C->reinit)
            abtmc_fetch_add(&left_cnt[k], 1);
    }
    if (C->free_early && i == 1) {
        /* nobody is blocked on the barrier any more; the last arrival may still
         * be between its broadcast and its return */
        OK(ABT_barrier_free(&BAR));
    }
}

static void waiter_body(void *arg)
{
    waiter((int)(intptr_t)arg);
}

static void tasklet_body(void *arg)
{
    (void)arg;
    int rc = ABT_barrier_wait(BAR);
    abtmc_check(rc == ABT_ERR_BARRIER, "barrier_tasklet",
                "ABT_barrier_wait called by a tasklet returned %d (1.x API: "
                "ABT_ERR_BARRIER)", rc);
    task_stamp[abtmc_fetch_add(&task_calls, 1) & 1] = abtmc_step() + 1;
}

static void scenario(int cfg)
{
    C = &cfgs[cfg];
    h_init();
    for (int k = 0; k < C->rounds; k++)
        b_part[k] = (1 << C->n[k]) - 1;
    ABT_xstream es1 = ABT_XSTREAM_NULL;
    int need_es1 = C->ntask > 0;
    for (int i = 0; i < C->nact; i++)
        if (C->kind[i] == K_U1)
            need_es1 = 1;
    OK(ABT_barrier_create((uint32_t)C->n[0], &BAR));
    if (need_es1)
        OK(ABT_xstream_create(ABT_SCHED_NULL, &es1));
    ABT_pool p0 = h_main_pool(h_self_xstream());
    ABT_pool p1 = need_es1 ? h_main_pool(es1) : ABT_POOL_NULL;

    abtmc_window_begin();
    ABT_thread th[B_MAXA], tk[2] = { ABT_THREAD_NULL, ABT_THREAD_NULL };
    int xt[B_MAXA];
    for (int i = 0; i < C->nact; i++) {
        void *arg = (void *)(intptr_t)i;
        th[i] = ABT_THREAD_NULL;
        xt[i] = -1;
        switch (C->kind[i]) {
            case K_U0:
                OK(ABT_thread_create(p0, waiter_body, arg, ABT_THREAD_ATTR_NULL,
                                     &th[i]));
                break;
            case K_U1:
                OK(ABT_thread_create(p1, waiter_body, arg, ABT_THREAD_ATTR_NULL,
                                     &th[i]));
                break;
            case K_X: xt[i] = abtmc_thread_create(waiter_body, arg); break;
            default: break;
        }
    }
    for (int t = 0; t < C->ntask; t++)
        OK(ABT_task_create(p1, tasklet_body, NULL, &tk[t]));
    for (int i = 0; i < C->nact; i++)
        if (C->kind[i] == K_M)
            waiter(i);
    for (int i = 0; i < C->nact; i++)
        if (th[i] != ABT_THREAD_NULL)
            OK(ABT_thread_free(&th[i]));
    for (int t = 0; t < C->ntask; t++)
        OK(ABT_thread_free(&tk[t]));
    for (int i = 0; i < C->nact; i++)
        if (xt[i] >= 0)
            abtmc_thread_join(xt[i]);
    abtmc_window_end();

    b_check_all(C->rounds, "ABT_barrier");
    abtmc_check(abtmc_load(&task_calls) == C->ntask, "barrier_tasklet",
                "%d of %d tasklet calls returned", task_calls, C->ntask);
    b_observe(C->rounds);
    if (C->ntask) {
        /* how many rounds participant 0 had left when the tasklets called */
        int before = 0;
        for (int t = 0; t < C->ntask; t++)
            for (int k = 0; k < C->rounds; k++)
                before += b_leave[0][k] < task_stamp[t];
        abtmc_observe("tasklet-after=%d", before);
    }

    /* the barrier must be idle: free is only defined without waiters */
    if (!C->free_early)
        OK(ABT_barrier_free(&BAR));
    else
        abtmc_check(BAR == ABT_BARRIER_NULL, "harness", "barrier not freed");
    if (need_es1) {
        OK(ABT_xstream_join(es1));
        OK(ABT_xstream_free(&es1));
    }
    h_finalize();
    abtmc_check(abtmc_ledger_live() == 0, "leak",
                "%ld allocations of libabt still live after ABT_finalize",
                abtmc_ledger_live());
}

static const char *cfg_name(int i) { return cfgs[i].name; }
static int cfg_quick(int i) { return cfgs[i].quick; }

int main(int argc, char **argv)
{
    static abtmc_driver d = { "c08_barrier", "C08", ARRAY_LEN(cfgs), cfg_name,
                              scenario, cfg_quick };
    return abtmc_main(argc, argv, &d);
}
