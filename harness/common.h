/* common.h -- helpers shared by the abtmc drivers */
#ifndef HARNESS_COMMON_H
#define HARNESS_COMMON_H
#include <stdio.h>
#include <stdlib.h>
#include <string.h>
#include <abt.h>
#include "abtmc.h"

/* an Argobots call that must succeed in this driver; a failure is a
 * violation only where the driver says so, otherwise a harness error */
#define OK(call)                                                               \
    do {                                                                       \
        int ok_ret_ = (call);                                                  \
        abtmc_check(ok_ret_ == ABT_SUCCESS, "api_error",                      \
                    "%s:%d: %s returned %d", __FILE__, __LINE__, #call,        \
                    ok_ret_);                                                  \
    } while (0)

#define ARRAY_LEN(a) ((int)(sizeof(a) / sizeof((a)[0])))

static inline void h_init(void)
{
    abtmc_std_env();
    OK(ABT_init(0, NULL));
}

static inline void h_finalize(void)
{
    OK(ABT_finalize());
}

/* main pool of an execution stream */
static inline ABT_pool h_main_pool(ABT_xstream xs)
{
    ABT_pool p;
    OK(ABT_xstream_get_main_pools(xs, 1, &p));
    return p;
}

static inline ABT_xstream h_self_xstream(void)
{
    ABT_xstream xs;
    OK(ABT_xstream_self(&xs));
    return xs;
}

/* blocked(pool) = total_size - size interpreted as int32 (C06 oracle) */
static inline int h_pool_blocked(ABT_pool p)
{
    size_t tot, sz;
    OK(ABT_pool_get_total_size(p, &tot));
    OK(ABT_pool_get_size(p, &sz));
    return (int)(int32_t)(uint32_t)(tot - sz);
}

/* Global invariant "the blocked count of a pool is never negative" (C06), for
 * drivers that include abti.h before this header: the engine evaluates it in
 * the state after every hooked write inside the exploration window.  Watched
 * pools must stay allocated until abtmc_window_end(). */
#ifdef ABTI_H_INCLUDED
static ABT_pool h_watched_[8];
static int h_nwatched_;
static void h_inv_blocked_nonneg_(void)
{
    for (int i = 0; i < h_nwatched_; i++) {
        int v = (int)ABTD_atomic_relaxed_load_int32(
            &ABTI_pool_get_ptr(h_watched_[i])->num_blocked);
        abtmc_check(v >= 0, "blocked_negative",
                    "global invariant: the blocked count of watched pool #%d is %d "
                    "in the state after a write", i, v);
    }
}
static inline void h_watch_pool(ABT_pool p)
{
    if (p == ABT_POOL_NULL || p == (ABT_pool)0)
        return;
    for (int i = 0; i < h_nwatched_; i++)
        if (h_watched_[i] == p)
            return;
    if (h_nwatched_ < 8)
        h_watched_[h_nwatched_++] = p;
    abtmc_set_invariant(h_inv_blocked_nonneg_);
}
#endif

#endif
